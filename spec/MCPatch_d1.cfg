SPECIFICATION MCSpec
CONSTANTS
  SeedIds = {1,2,3,4}
  OptIds = {1,2}
  ValIds = {1,2,3,4,5,6,7,8,9,10}
  ValIds2 = {1,2,9}
  MaxOps = 1
  OpKinds = {"add","remove","replace","move","copy","test"}
  WideDepth = 1
  EmitOn = TRUE
INVARIANTS DocOK CopyBound LimitZeroNeverFails PtrRoundTrip
PROPERTIES OnlyCopyCounts FirstFailureWins NoOpSteps
ACTION_CONSTRAINT Emit
CHECK_DEADLOCK FALSE
