----------------------------- MODULE Merge7396 -----------------------------
(***************************************************************************)
(* RFC 7396 JSON Merge Patch as the json-patch API promises it: applying a *)
(* merge patch (MP), creating one (Diff) and composing two (Compose),      *)
(* together with the predicates that state what the properties C02, C03,   *)
(* C05 (merge clause) and C07 demand of an OBSERVED result - so that trace *)
(* validation judges what the code returned by the property's own words    *)
(* and not by one particular algorithm.                                    *)
(***************************************************************************)
EXTENDS JsonValue

Has(v, k)  == MemIdx(v.m, k) # 0
Get(v, k)  == v.m[MemIdx(v.m, k)].v
EmptyObj   == Obj(<<>>)

(***************************************************************************)
(* RFC 7396 section 2:                                                     *)
(*   define MergePatch(Target, Patch):                                     *)
(*     if Patch is an Object:                                              *)
(*       if Target is not an Object: Target = {}                           *)
(*       for each Name/Value pair in Patch:                                *)
(*         if Value is null: remove Name from Target (if it exists)        *)
(*         else: Target[Name] = MergePatch(Target[Name], Value)            *)
(*       return Target                                                     *)
(*     else: return Patch                                                  *)
(* Member order of the result (not fixed by the RFC, promised by C05):     *)
(* surviving members keep the target's order, new members follow in the    *)
(* patch's order.                                                          *)
(***************************************************************************)
RECURSIVE MP(_, _)
MP(target, patch) ==
  IF patch.t # "obj" THEN patch
  ELSE
    LET t0 == IF target.t = "obj" THEN target ELSE EmptyObj
        n  == Len(patch.m)
        \* acc[i] = the member sequence after the first i patch members
        acc[i \in 0..n] ==
          IF i = 0 THEN t0.m
          ELSE LET cur == acc[i-1]
                   k   == patch.m[i].k
                   v   == patch.m[i].v
                   j   == MemIdx(cur, k)
               IN  IF v.t = "null" THEN (IF j = 0 THEN cur ELSE RemoveAt(cur, j))
                   ELSE IF j = 0 THEN Append(cur, Mem(k, MP(Null, v)))
                   ELSE [cur EXCEPT ![j].v = MP(cur[j].v, v)]
    IN  Obj(acc[n])

(***************************************************************************)
(* What C02 + C05 demand of an observed result r of MergePatch(t, p):      *)
(* structurally the RFC result, and in every object that was merged the    *)
(* surviving members in the target's order ahead of the new ones (the new  *)
(* ones in any order: the implementation iterates a hash map).             *)
(***************************************************************************)
RECURSIVE MergeOrderOK(_, _, _)
MergeOrderOK(t, p, r) ==
  IF ~(t.t = "obj" /\ p.t = "obj" /\ r.t = "obj") THEN TRUE
  ELSE
    LET tk == Keys(t)   rk == Keys(r)
        InS(x, s) == \E i \in 1..Len(s) : s[i] = x
    IN  /\ SelectSeq(rk, LAMBDA k : InS(k, tk)) = SelectSeq(tk, LAMBDA k : InS(k, rk))
        /\ \A i, j \in 1..Len(rk) : (InS(rk[i], tk) /\ ~InS(rk[j], tk)) => i < j
        /\ \A i \in 1..Len(r.m) :
             (Has(t, r.m[i].k) /\ Has(p, r.m[i].k)) => MergeOrderOK(Get(t, r.m[i].k), Get(p, r.m[i].k), r.m[i].v)

IsMPResult(t, p, r) == JEq(r, MP(t, p))

(***************************************************************************)
(* CreateMergePatch (C03).  Diff is defined for two objects.               *)
(***************************************************************************)
RECURSIVE Diff(_, _)
Diff(A, B) ==
  LET nb == Len(B.m)
      \* members contributed by B, in B's order
      fromB[i \in 0..nb] ==
        IF i = 0 THEN <<>>
        ELSE LET k == B.m[i].k   bv == B.m[i].v IN
             IF ~Has(A, k) THEN Append(fromB[i-1], Mem(k, bv))
             ELSE LET av == Get(A, k) IN
                  IF av.t = "obj" /\ bv.t = "obj"
                  THEN LET d == Diff(av, bv) IN
                       IF d.m = <<>> THEN fromB[i-1] ELSE Append(fromB[i-1], Mem(k, d))
                  ELSE IF JEq(av, bv) THEN fromB[i-1] ELSE Append(fromB[i-1], Mem(k, bv))
      na == Len(A.m)
      gone[i \in 0..na] ==
        IF i = 0 THEN <<>>
        ELSE IF Has(B, A.m[i].k) THEN gone[i-1] ELSE Append(gone[i-1], Mem(A.m[i].k, Null))
  IN  Obj(fromB[nb] \o gone[na])

\* C03's clauses about an observed patch P for objects A, B, one by one
RECURSIVE IsMinimalPatch(_, _, _)
IsMinimalPatch(A, B, P) ==
  /\ P.t = "obj"
  \* every member it mentions differs between A and B at that path; removed members are null;
  \* literals are B's
  /\ \A i \in 1..Len(P.m) :
       LET k == P.m[i].k   v == P.m[i].v IN
       IF v.t = "null"
       THEN \/ Has(A, k) /\ ~Has(B, k)                                          \* a removed member
            \/ Has(B, k) /\ Get(B, k).t = "null" /\ (~Has(A, k) \/ Get(A, k).t # "null")   \* B's own null, where A differs
       ELSE /\ Has(B, k)
            /\ IF Has(A, k) /\ Get(A, k).t = "obj" /\ Get(B, k).t = "obj"
               THEN v.t = "obj" /\ v.m # <<>> /\ IsMinimalPatch(Get(A, k), Get(B, k), v)
               ELSE JEq(v, Get(B, k)) /\ (~Has(A, k) \/ ~JEq(Get(A, k), Get(B, k)))
  \* nothing that differs is left out
  /\ \A i \in 1..Len(A.m) : ~Has(B, A.m[i].k) => (Has(P, A.m[i].k) /\ Get(P, A.m[i].k).t = "null")
  /\ \A i \in 1..Len(B.m) :
       LET k == B.m[i].k IN
       (~Has(A, k) \/ ~JEq(Get(A, k), B.m[i].v)) => Has(P, k)

\* root dispatch of CreateMergePatch: "obj" both objects, "arr" both arrays of objects of equal
\* length, "dc" a null root or null array element (read as {} by the library: outside the stated
\* domain), "reject" everything else
AllObjs(v) == \A i \in 1..Len(v.e) : v.e[i].t = "obj"
SomeNull(v) == \E i \in 1..Len(v.e) : v.e[i].t = "null"
CreateKind(A, B) ==
  IF A.t = "null" \/ B.t = "null" THEN "dc"
  ELSE IF A.t = "obj" /\ B.t = "obj" THEN "obj"
  ELSE IF A.t = "arr" /\ B.t = "arr" THEN
         IF SomeNull(A) \/ SomeNull(B) THEN "dc"
         ELSE IF Len(A.e) = Len(B.e) /\ AllObjs(A) /\ AllObjs(B) THEN "arr" ELSE "reject"
  ELSE "reject"

CreateResult(A, B) ==        \* only for CreateKind \in {"obj", "arr"}
  IF A.t = "obj" THEN Diff(A, B) ELSE Arr([i \in 1..Len(A.e) |-> Diff(A.e[i], B.e[i])])

(***************************************************************************)
(* MergeMergePatches (C07).                                                *)
(***************************************************************************)
\* wherever P2 holds an object, P1 holds an object or nothing at that path
RECURSIVE Compatible(_, _)
Compatible(p1, p2) ==
  IF p2.t # "obj" THEN TRUE
  ELSE /\ p1.t = "obj"
       /\ \A i \in 1..Len(p2.m) :
            p2.m[i].v.t = "obj" =>
               (~Has(p1, p2.m[i].k) \/ (Get(p1, p2.m[i].k).t = "obj" /\ Compatible(Get(p1, p2.m[i].k), p2.m[i].v)))

RECURSIVE Compose(_, _)
Compose(p1, p2) ==           \* for Compatible(p1, p2)
  IF p2.t # "obj" THEN p2
  ELSE
    LET n == Len(p2.m)
        acc[i \in 0..n] ==
          IF i = 0 THEN p1.m
          ELSE LET cur == acc[i-1]
                   k   == p2.m[i].k
                   v   == p2.m[i].v
                   j   == MemIdx(cur, k)
               IN  IF j = 0 THEN Append(cur, Mem(k, v))                       \* deletions and new values are kept as they are
                   ELSE IF v.t = "obj" THEN [cur EXCEPT ![j].v = Compose(cur[j].v, v)]
                   ELSE [cur EXCEPT ![j].v = v]                               \* a later value (or deletion) overrides
    IN  Obj(acc[n])
=============================================================================
