------------------------------ MODULE CopyAcct ------------------------------
(***************************************************************************)
(* The copy-size accounting of Patch.ApplyIndentWithOptions (C12) on its   *)
(* own: a running total, a limit (0 = none), and a status.  It abstracts   *)
(* Patch6902 (MCPatch checks with TLC that the interpreter machine refines *)
(* it: property RefinesCopyAcct) and is small enough for Apalache to prove *)
(* the bound for ALL limits, sizes and lengths of patches by an inductive  *)
(* invariant (bin/check C12 --tier thorough runs both):                    *)
(*   apalache-mc check --init=Init    --inv=IndInv --length=0                *)
(*   apalache-mc check --init=IndInit --inv=IndInv --length=1                *)
(* The code: v5/patch.go copy():  total += sz;  if limit > 0 && total >    *)
(* limit { return AccumulatedCopySizeError }.                              *)
(***************************************************************************)
EXTENDS Integers

VARIABLES
  \* @type: Int;
  Limit,     \* the configured limit, chosen at the start and never changed (a variable so that Patch6902 can map opts.limit to it)
  \* @type: Int;
  total,
  \* @type: Str;
  st,        \* "run" | "err" | "dc" (the run left the stated domain)
  \* @type: Str;
  why        \* "" | "CopyLimit" | "Other"

Init == Limit \in Nat /\ total = 0 /\ st = "run" /\ why = ""

\* a copy of a value of size sz
Copy(sz) ==
  /\ st = "run" /\ UNCHANGED Limit
  /\ total' = total + sz
  /\ IF Limit > 0 /\ total + sz > Limit
     THEN st' = "err" /\ why' = "CopyLimit"
     ELSE st' = "run" /\ why' = ""

\* any other operation (and a copy that fails for another reason): the total stays; it may succeed, fail, or leave the domain
Other ==
  /\ st = "run" /\ UNCHANGED Limit
  /\ total' = total
  /\ \/ st' = "run" /\ why' = ""
     \/ st' = "err" /\ why' = "Other"
     \/ st' = "dc" /\ why' = "Other"

Next == (\E sz \in Nat : Copy(sz)) \/ Other
vars == <<Limit, total, st, why>>
Spec == Init /\ [][Next]_vars
\* the same next-state relation in a form TLC can evaluate on a given pair of states (sz is forced to be total' - total)
NextObs == (total' >= total /\ Copy(total' - total)) \/ Other
SpecObs == Init /\ [][NextObs]_vars

(***************************************************************************)
(* C12.                                                                    *)
(***************************************************************************)
\* while the run goes on under a positive limit, the total is within it
Bound == (st = "run" /\ Limit > 0) => total <= Limit
\* a limit of 0 never stops a patch
ZeroNeverStops == Limit = 0 => why # "CopyLimit"
\* the failure is reported exactly when the total has passed the limit
FailsOnlyBeyond == why = "CopyLimit" => (Limit > 0 /\ total > Limit)

TypeOK == Limit \in Nat /\ total \in Nat /\ st \in {"run", "err", "dc"} /\ why \in {"", "CopyLimit", "Other"}
IndInv == TypeOK /\ Bound /\ ZeroNeverStops /\ FailsOnlyBeyond /\ (st = "run" => why = "")
IndInit == Limit \in Int /\ total \in Int /\ st \in {"run", "err", "dc"} /\ why \in {"", "CopyLimit", "Other"} /\ IndInv
=============================================================================
