--------------------------- MODULE CopyAcctProof ---------------------------
(***************************************************************************)
(* TLAPS proof that the copy-size accounting keeps its inductive invariant *)
(* (C12 at design level, for all limits, sizes and patch lengths):         *)
(*     tlapm --threads 16 CopyAcctProof.tla                                *)
(* The same statement is checked by Apalache (bin/check C12) and, on the   *)
(* bounded interpreter machine that refines CopyAcct, by TLC.              *)
(***************************************************************************)
EXTENDS CopyAcct, TLAPS

THEOREM InitEstablishes == Init => IndInv
  BY DEF Init, IndInv, TypeOK, Bound, ZeroNeverStops, FailsOnlyBeyond

THEOREM StepPreserves == IndInv /\ [Next]_vars => IndInv'
<1> SUFFICES ASSUME IndInv, [Next]_vars PROVE IndInv'
  OBVIOUS
<1>1. ASSUME NEW sz \in Nat, Copy(sz) PROVE IndInv'
  BY <1>1 DEF Copy, IndInv, TypeOK, Bound, ZeroNeverStops, FailsOnlyBeyond
<1>2. ASSUME Other PROVE IndInv'
  BY <1>2 DEF Other, IndInv, TypeOK, Bound, ZeroNeverStops, FailsOnlyBeyond
<1>3. ASSUME UNCHANGED vars PROVE IndInv'
  BY <1>3 DEF vars, IndInv, TypeOK, Bound, ZeroNeverStops, FailsOnlyBeyond
<1> QED
  BY <1>1, <1>2, <1>3 DEF Next

THEOREM BoundAlways == Spec => [](Bound /\ ZeroNeverStops /\ FailsOnlyBeyond)
<1>1. Spec => []IndInv
  BY InitEstablishes, StepPreserves, PTL DEF Spec
<1>2. IndInv => Bound /\ ZeroNeverStops /\ FailsOnlyBeyond
  BY DEF IndInv
<1> QED
  BY <1>1, <1>2, PTL
=============================================================================
