------------------------------ MODULE PatchOps ------------------------------
(***************************************************************************)
(* RFC 6902 operations as the json-patch API promises them (reference     *)
(* layer): the semantics of one operation is the pure operator ApplyOp,    *)
(* RunAll folds it over a patch.  The state machine that threads a         *)
(* document, the accumulated copy size and a status through a sequence of  *)
(* operations is module Patch6902; this module has no variables so that    *)
(* other machines (Cli, History, trace specifications) can reuse it.       *)
(*                                                                         *)
(* Options: [neg, limit, allow, ensure, esc]                               *)
(*   neg    SupportNegativeIndices                                         *)
(*   limit  AccumulatedCopySizeLimit (0 = off)                             *)
(*   allow  AllowMissingPathOnRemove                                       *)
(*   ensure EnsurePathExistsOnAdd                                          *)
(*   esc    EscapeHTML                                                     *)
(*                                                                         *)
(* Operations (pointers are TEXT, sequences of code points):               *)
(*   [op |-> "add",     path |-> cps, value |-> v]                         *)
(*   [op |-> "remove",  path |-> cps]                                      *)
(*   [op |-> "replace", path |-> cps, value |-> v]                         *)
(*   [op |-> "move",    from |-> cps, path |-> cps]                        *)
(*   [op |-> "copy",    from |-> cps, path |-> cps]                        *)
(*   [op |-> "test",    path |-> cps, value |-> v]                         *)
(*                                                                         *)
(* Result of an operation:                                                 *)
(*   [k |-> "ok",  v |-> document', lab, skip |-> BOOLEAN, ...]            *)
(*   [k |-> "err", cls |-> class,   lab, ...]                              *)
(*   [k |-> "dc",  ...]   the statement places the case outside its domain *)
(* Error classes (C08):                                                    *)
(*   "TestFailed"   errors.Is(err, ErrTestFailed) must hold                *)
(*   "CopyLimit"    errors.As(err, *AccumulatedCopySizeError) must hold    *)
(*   "Missing"      errors.Is(err, ErrMissing) must hold                   *)
(*   "Unspecified"  some error, but neither of the first two               *)
(* lab names which clause of the dialect the operation exercised.          *)
(***************************************************************************)
EXTENDS JsonEnc, Pointer, TLC

MaxPad == 10000        \* indices above 10^4 under ensure are outside the stated domain

R(k, v, cls, lab, skip) == [k |-> k, v |-> v, cls |-> cls, lab |-> lab, skip |-> skip]
OK(v, lab)     == R("ok", v, "", lab, FALSE)
SKIP(v, lab)   == R("ok", v, "", lab, TRUE)
ERR(cls, lab)  == R("err", Null, cls, lab, FALSE)
DC(lab)        == R("dc", Null, "", lab, FALSE)

C(k, i, v) == [k |-> k, i |-> i, v |-> v]

(***************************************************************************)
(* Position of an index token in an array of length n.                     *)
(***************************************************************************)
ArrPos(tok, n, neg, forAdd) ==
  LET p == ParseIndex(tok) IN
  CASE p.k = "dash" -> IF forAdd THEN C("pos", n, Null) ELSE C("bad", 0, Null)
    [] p.k = "int"  -> LET r == NormIndex(p.i, n, neg, forAdd) IN
                       IF r < 0 THEN C("bad", 0, Null) ELSE C("pos", r, Null)
    [] p.k = "huge" -> C("bad", 0, Null)
    [] p.k = "odd"  -> C("dc", 0, Null)
    [] OTHER        -> C("bad", 0, Null)

IsNegTok(tok) == LET p == ParseIndex(tok) IN
                 (p.k = "int" /\ p.i < 0) \/ (p.k = "huge" /\ p.neg)

(***************************************************************************)
(* One step of pointer evaluation (RFC 6901 section 4).                    *)
(*   "ok"      child found: i = its 1-based position, v = its value        *)
(*   "absent"  v is an object without that member                          *)
(*   "range"   v is an array and the token is not one of its positions     *)
(*   "scalar"  v is not a container                                        *)
(*   "dc"      empty token / non-canonical index spelling                  *)
(***************************************************************************)
Child(v, tok, neg) ==
  IF tok = <<>> THEN C("dc", 0, Null)
  ELSE IF v.t = "obj" THEN
         LET i == MemIdx(v.m, tok) IN
         IF i = 0 THEN C("absent", 0, Null) ELSE C("ok", i, v.m[i].v)
  ELSE IF v.t = "arr" THEN
         LET a == ArrPos(tok, Len(v.e), neg, FALSE) IN
         IF a.k = "dc" THEN C("dc", 0, Null)
         ELSE IF a.k = "bad" THEN C("range", 0, Null)
         ELSE C("ok", a.i + 1, v.e[a.i + 1])
  ELSE C("scalar", 0, Null)

SetChild(v, i, x) ==
  IF v.t = "obj" THEN Obj([v.m EXCEPT ![i].v = x]) ELSE Arr([v.e EXCEPT ![i] = x])

(***************************************************************************)
(* Looking a value up ("the value at that location").                      *)
(*   "ok" v | "absent" (object parent, no such member) | "range" (array    *)
(*   parent, no such position) | "scalar" (the parent is not a container)  *)
(*   | "unreach" (the parent location cannot be reached) | "dc"            *)
(***************************************************************************)
RECURSIVE Lookup(_, _, _)
Lookup(v, toks, neg) ==
  IF toks = <<>> THEN C("ok", 0, v)
  ELSE LET c == Child(v, toks[1], neg) IN
       IF c.k = "dc" THEN c
       ELSE IF Len(toks) = 1 THEN c
       ELSE IF c.k = "ok" THEN Lookup(c.v, Tail(toks), neg)
       ELSE C("unreach", 0, Null)

LookupErr(c, what) ==          \* class of a failed lookup of a source / target
  CASE c.k = "absent"  -> ERR("Missing", what \o "AbsentMember")
    [] c.k = "unreach" -> ERR("Missing", what \o "NoParent")
    [] c.k = "range"   -> ERR("Unspecified", what \o "BadIndex")
    [] c.k = "scalar"  -> ERR("Unspecified", what \o "ScalarParent")
    [] OTHER           -> DC(what)

(***************************************************************************)
(* add / remove / replace at the last token, v being the parent container. *)
(* cmd: [c |-> "add", x |-> value] | [c |-> "replace", x |-> value]        *)
(*      | [c |-> "remove", x |-> Null]                                     *)
(***************************************************************************)
Leaf(v, tok, cmd, o) ==
  IF tok = <<>> THEN DC("EmptyToken")
  ELSE IF v.t = "obj" THEN
    LET i == MemIdx(v.m, tok) IN
    CASE cmd.c = "add" ->
           IF i = 0 THEN OK(Obj(Append(v.m, Mem(tok, cmd.x))), "AddMember")          \* new members go last
           ELSE OK(Obj([v.m EXCEPT ![i].v = cmd.x]), "AddExisting")                  \* position kept
      [] cmd.c = "replace" ->
           IF i = 0 THEN ERR("Missing", "ReplaceAbsentMember")
           ELSE OK(Obj([v.m EXCEPT ![i].v = cmd.x]), "ReplaceMember")
      [] OTHER ->
           IF i = 0 THEN (IF o.allow THEN SKIP(v, "RemoveSkippedMember") ELSE ERR("Missing", "RemoveAbsentMember"))
           ELSE OK(Obj(RemoveAt(v.m, i)), "RemoveMember")
  ELSE
    LET n == Len(v.e) IN
    CASE cmd.c = "add" ->
           LET a == ArrPos(tok, n, o.neg, TRUE) IN
           IF a.k = "dc" THEN DC("OddIndex")
           ELSE IF a.k = "bad" THEN ERR("Unspecified", "AddBadIndex")
           ELSE OK(Arr(InsertAtPos(v.e, a.i + 1, cmd.x)), IF a.i = n THEN "AddAppend" ELSE "AddInsert")
      [] cmd.c = "replace" ->
           LET a == ArrPos(tok, n, o.neg, FALSE) IN
           IF a.k = "dc" THEN DC("OddIndex")
           ELSE IF a.k = "bad" THEN ERR("Unspecified", "ReplaceBadIndex")
           ELSE OK(Arr([v.e EXCEPT ![a.i + 1] = cmd.x]), "ReplaceElem")
      [] OTHER ->
           LET a == ArrPos(tok, n, o.neg, FALSE)
               p == ParseIndex(tok) IN
           IF a.k = "dc" THEN DC("OddIndex")
           \* with the option on: non-numeric last tokens, and negative tokens while negative
           \* indices are disabled, are outside C13's stated domain
           ELSE IF o.allow /\ (p.k = "nan" \/ p.k = "dash" \/ (~o.neg /\ IsNegTok(tok))) THEN DC("RemoveAllowOddToken")
           ELSE IF a.k = "bad" THEN (IF o.allow THEN SKIP(v, "RemoveSkippedIndex") ELSE ERR("Unspecified", "RemoveBadIndex"))
           ELSE OK(Arr(RemoveAt(v.e, a.i + 1)), "RemoveElem")

(***************************************************************************)
(* Walk to the parent of the last token and modify there.                  *)
(***************************************************************************)
NoParent(cmd, o, v, lab) ==
  IF cmd.c = "remove" /\ o.allow THEN SKIP(v, "RemoveSkipped" \o lab)
  ELSE ERR("Missing", (IF cmd.c = "add" THEN "Add" ELSE IF cmd.c = "remove" THEN "Remove" ELSE "Replace") \o lab)

ScalarParent(cmd, o, v) ==
  IF cmd.c = "remove" /\ o.allow THEN SKIP(v, "RemoveSkippedScalarParent")
  ELSE ERR("Unspecified", (IF cmd.c = "add" THEN "Add" ELSE IF cmd.c = "remove" THEN "Remove" ELSE "Replace") \o "ScalarParent")

RECURSIVE Mod(_, _, _, _)
Mod(v, toks, cmd, o) ==       \* Len(toks) >= 1
  IF ~IsContainer(v) THEN
       IF Len(toks) = 1 THEN ScalarParent(cmd, o, v) ELSE NoParent(cmd, o, v, "NoParent")
  ELSE IF Len(toks) = 1 THEN Leaf(v, toks[1], cmd, o)
  ELSE IF cmd.c = "remove" /\ o.allow /\ ~o.neg /\ v.t = "arr" /\ IsNegTok(toks[1]) THEN DC("RemoveAllowOddToken")
  ELSE LET c == Child(v, toks[1], o.neg) IN
       IF c.k = "dc" THEN DC("OddToken")
       ELSE IF c.k # "ok" THEN NoParent(cmd, o, v, "NoParent")
       ELSE LET r == Mod(c.v, Tail(toks), cmd, o) IN
            IF r.k # "ok" THEN r
            ELSE R("ok", SetChild(v, c.i, r.v), "", r.lab, r.skip)

(***************************************************************************)
(* EnsurePathExistsOnAdd (C14): create the missing parents - an array when *)
(* the NEXT token is an index or "-", an object otherwise - padding arrays *)
(* with null up to the addressed index.  fresh = v was created on the way. *)
(***************************************************************************)
RECURSIVE PadTo(_, _)
PadTo(e, n) == IF Len(e) >= n THEN e ELSE PadTo(Append(e, Null), n)

RECURSIVE Ensure(_, _, _, _, _)
Ensure(v, toks, x, o, fresh) ==
  IF ~IsContainer(v) THEN
       IF v.t = "null" THEN DC("EnsureThroughNull")            \* outside C14's domain; the code re-creates it
       ELSE IF Len(toks) = 1 THEN ERR("Unspecified", "AddScalarParent")
       ELSE ERR("Missing", "AddNoParent")
  ELSE IF toks[1] = <<>> THEN DC("EmptyToken")
  ELSE IF Len(toks) = 1 THEN
       IF fresh /\ v.t = "arr" THEN
            LET p == ParseIndex(toks[1]) IN
            IF p.k = "dash" THEN OK(Arr(Append(v.e, x)), "AddEnsure")
            ELSE IF p.k = "int" /\ p.i >= 0 /\ p.i <= MaxPad THEN OK(Arr(Append(PadTo(v.e, p.i), x)), "AddEnsure")
            ELSE DC("EnsureOddIndex")
       ELSE LET r == Leaf(v, toks[1], [c |-> "add", x |-> x], o) IN
            IF fresh /\ r.k = "ok" THEN OK(r.v, "AddEnsure") ELSE r
  ELSE
    LET t == toks[1]
        c == Child(v, t, o.neg) IN
    IF c.k = "dc" THEN DC("OddToken")
    ELSE IF c.k = "ok" THEN
         LET r == Ensure(c.v, Tail(toks), x, o, FALSE) IN
         IF r.k # "ok" THEN r ELSE OK(SetChild(v, c.i, r.v), r.lab)
    ELSE
      LET nx == ParseIndex(toks[2])
          p  == ParseIndex(t) IN
      IF nx.k = "odd" \/ nx.k = "huge" \/ (nx.k = "int" /\ nx.i < 0) \/ (nx.k = "dash" /\ Len(toks) > 2)
         THEN DC("EnsureOddIndex")
      ELSE IF v.t = "arr" /\ p.k = "nan" THEN ERR("Missing", "AddNoParent")      \* /arr/x/...: no such position can be made
      ELSE IF v.t = "arr" /\ ~(p.k = "int" /\ p.i >= Len(v.e) /\ p.i <= MaxPad) THEN DC("EnsureOddIndex")
      ELSE
        LET child0 == IF nx.k = "int" \/ nx.k = "dash" THEN Arr(<<>>) ELSE Obj(<<>>)
            r == Ensure(child0, Tail(toks), x, o, TRUE) IN
        IF r.k # "ok" THEN r
        ELSE IF v.t = "obj" THEN OK(Obj(Append(v.m, Mem(t, r.v))), "AddEnsure")
        ELSE OK(Arr(Append(PadTo(v.e, p.i), r.v)), "AddEnsure")

(***************************************************************************)
(* The six operations.                                                     *)
(* copied = [lo, hi]: running total of the sizes duplicated by copy; a     *)
(* copied null may weigh 0 or 4, hence an interval.  sz = [some, n]: when  *)
(* some, n is the size of the copied value measured on the real output     *)
(* (trace validation, C12); otherwise the size is EncLen(value, esc).      *)
(***************************************************************************)
Over(o, n) == o.limit > 0 /\ n > o.limit

NoSz == [some |-> FALSE, n |-> 0]

ApplyOp(d, op, o, copied, sz) ==
  LET same == copied IN
  CASE op.op = "add" ->
         IF ~IsPointerText(op.path) THEN [r |-> DC("NotAPointer"), copied |-> same]
         ELSE LET toks == ParsePointer(op.path) IN
         [copied |-> same, r |->
           IF toks = <<>> THEN
                IF IsContainer(op.value) THEN OK(op.value, "AddRoot")
                ELSE IF op.value.t = "null" THEN DC("RootNull")
                ELSE ERR("Unspecified", "AddRootScalar")
           ELSE IF o.ensure THEN Ensure(d, toks, op.value, o, FALSE)
           ELSE Mod(d, toks, [c |-> "add", x |-> op.value], o)]
    [] op.op = "remove" ->
         IF ~IsPointerText(op.path) THEN [r |-> DC("NotAPointer"), copied |-> same]
         ELSE LET toks == ParsePointer(op.path) IN
         [copied |-> same, r |->
           IF toks = <<>> THEN DC("RemoveRoot")
           ELSE Mod(d, toks, [c |-> "remove", x |-> Null], o)]
    [] op.op = "replace" ->
         IF ~IsPointerText(op.path) THEN [r |-> DC("NotAPointer"), copied |-> same]
         ELSE LET toks == ParsePointer(op.path) IN
         [copied |-> same, r |->
           IF toks = <<>> THEN
                IF IsContainer(op.value) THEN OK(op.value, "ReplaceRoot")
                ELSE IF op.value.t = "null" THEN DC("RootNull")
                ELSE ERR("Unspecified", "ReplaceRootScalar")
           ELSE Mod(d, toks, [c |-> "replace", x |-> op.value], o)]
    [] op.op = "move" ->
         IF ~IsPointerText(op.path) \/ ~IsPointerText(op.from) THEN [r |-> DC("NotAPointer"), copied |-> same]
         ELSE LET ft == ParsePointer(op.from)
                  pt == ParsePointer(op.path) IN
         [copied |-> same, r |->
           IF ft = <<>> THEN ERR("Unspecified", "MoveFromRoot")
           ELSE IF pt = <<>> THEN DC("MoveToRoot")
           ELSE LET src == Lookup(d, ft, o.neg) IN
                IF src.k # "ok" THEN LookupErr(src, "MoveFrom")
                ELSE \* move = remove (of an existing value) then add
                  LET rm == Mod(d, ft, [c |-> "remove", x |-> Null], [o EXCEPT !.allow = FALSE]) IN
                  IF rm.k # "ok" THEN rm
                  ELSE LET ad == Mod(rm.v, pt, [c |-> "add", x |-> src.v], o) IN
                       IF ad.k = "ok" THEN OK(ad.v, "Move") ELSE ad]
    [] op.op = "copy" ->
         IF ~IsPointerText(op.path) \/ ~IsPointerText(op.from) THEN [r |-> DC("NotAPointer"), copied |-> same]
         ELSE LET ft == ParsePointer(op.from)
                  pt == ParsePointer(op.path) IN
           IF pt = <<>> THEN [r |-> DC("CopyToRoot"), copied |-> same]
           ELSE LET src == Lookup(d, ft, o.neg) IN
                IF src.k # "ok" THEN [r |-> LookupErr(src, "CopyFrom"), copied |-> same]
                ELSE
                  LET ad  == Mod(d, pt, [c |-> "add", x |-> src.v], o)
                      slo == IF sz.some THEN sz.n ELSE IF src.v.t = "null" THEN 0 ELSE EncLen(src.v, o.esc)
                      shi == IF sz.some THEN sz.n ELSE EncLen(src.v, o.esc)
                      nlo == copied.lo + slo
                      nhi == copied.hi + shi
                      must == Over(o, nlo)
                      may  == Over(o, nhi)
                      nc   == [lo |-> nlo, hi |-> nhi]
                  IN
                  IF ad.k = "dc" THEN [r |-> ad, copied |-> same]
                  ELSE IF ad.k = "err" THEN
                       \* the destination is bad AND the limit is (or may be) crossed: the statement
                       \* does not say which error wins
                       IF may THEN [r |-> DC("CopyTwoFailures"), copied |-> same] ELSE [r |-> ad, copied |-> same]
                  ELSE IF must THEN [r |-> ERR("CopyLimit", "CopyOverLimit"), copied |-> nc]
                  ELSE IF may THEN [r |-> DC("CopyNullSizeAmbiguous"), copied |-> same]
                  ELSE [r |-> OK(ad.v, "Copy"), copied |-> nc]
    [] op.op = "test" ->
         IF ~IsPointerText(op.path) THEN [r |-> DC("NotAPointer"), copied |-> same]
         ELSE LET toks == ParsePointer(op.path)
                  tgt  == Lookup(d, toks, o.neg)
                  cmp(x) == IF JEq(x, op.value) THEN OK(d, "TestPass")
                            ELSE IF JEqNumeric(x, op.value) THEN DC("TestNumberSpelling")
                            ELSE ERR("TestFailed", "TestFail")
         IN [copied |-> same, r |->
              CASE tgt.k = "ok"      -> cmp(tgt.v)
                [] tgt.k = "absent"  -> \* an absent object member compares as null
                                        IF op.value.t = "null" THEN OK(d, "TestPassAbsent")
                                        ELSE ERR("TestFailed", "TestFailAbsent")
                [] tgt.k = "unreach" -> ERR("Missing", "TestNoParent")
                [] tgt.k = "range"   -> ERR("Unspecified", "TestBadIndex")
                [] tgt.k = "scalar"  -> ERR("Unspecified", "TestScalarParent")
                [] OTHER             -> DC("OddToken")]
    [] OTHER -> [r |-> DC("UnknownOp"), copied |-> same]

(***************************************************************************)
(* A whole patch: fold ApplyOp over the operations, stop at the first      *)
(* failure.  Returns [k, v, cls]: final document or first failure.         *)
(***************************************************************************)
RECURSIVE RunAll(_, _, _, _, _)
RunAll(d, os, o, cp, i) ==        \* returns [k, v, cls]: final document or first failure
  IF i > Len(os) THEN [k |-> "ok", v |-> d, cls |-> ""]
  ELSE LET a == ApplyOp(d, os[i], o, cp, NoSz) IN
       IF a.r.k = "ok" THEN RunAll(a.r.v, os, o, a.copied, i + 1)
       ELSE [k |-> a.r.k, v |-> Null, cls |-> a.r.cls]

WithoutSkipped(os, sk) == SelectSeq([i \in 1..Len(os) |-> [i |-> i, op |-> os[i]]],
                                    LAMBDA x : \A j \in 1..Len(sk) : sk[j] # x.i)
OpsOnly(xs) == [i \in 1..Len(xs) |-> xs[i].op]

=============================================================================
