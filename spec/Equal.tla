------------------------------- MODULE Equal -------------------------------
(***************************************************************************)
(* Equal(a, b) of the json-patch API (C06) at value level: true exactly    *)
(* when both texts are well-formed and denote the same value (JEq of       *)
(* JsonValue: members as a set, elements in order, numbers by literal,     *)
(* strings by code points).  Malformed texts (verdict FALSE) enter through  *)
(* the text model (MCScanner words, C16) - a text is represented here by   *)
(* either its value or the tag Malformed.                                  *)
(***************************************************************************)
EXTENDS JsonValue

Malformed == [t |-> "malformed"]

EqualVerdict(a, b) ==
  IF a.t = "malformed" \/ b.t = "malformed" THEN FALSE ELSE JEq(a, b)

\* numerically equal numbers spelled differently somewhere: outside C06's stated domain
EqualDontCare(a, b) ==
  a.t # "malformed" /\ b.t # "malformed" /\ ~JEq(a, b) /\ JEqNumeric(a, b)
=============================================================================
