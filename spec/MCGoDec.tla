------------------------------ MODULE MCGoDec ------------------------------
(***************************************************************************)
(* A bounded universe of (Go type, JSON value) pairs for GoDec and the     *)
(* emitter for the codec replay: the harness builds each type with reflect *)
(* (struct types with reflect.StructOf), lets the embedded codec Unmarshal *)
(* the text into a zero value of it and compares the value stored and the  *)
(* presence of an error with GoDec!Unmarshal.                              *)
(***************************************************************************)
EXTENDS GoDec, Json

CONSTANTS EmitOn, Level

\* ---- types (zero values) -------------------------------------------------
TBool == GB(FALSE)   TInt == GI(0)   TFloat == GFl(<<48>>)   TStr == GS(<<>>)   TNum == GNum(<<>>)
St(f) == [g |-> "struct", f |-> f]
F(name, z) == [name |-> name, tagged |-> FALSE, tname |-> <<>>, omitempty |-> FALSE, str |-> FALSE, dash |-> FALSE, anon |-> FALSE, v |-> z]
Tn(f, t) == [f EXCEPT !.tagged = TRUE, !.tname = t]
Qs(f) == [f EXCEPT !.tagged = TRUE, !.str = TRUE]
Dash(f) == [f EXCEPT !.tagged = TRUE, !.dash = TRUE]
Anon(name, z) == [F(name, z) EXCEPT !.anon = TRUE]

nA == <<65>>  nB == <<66>>  nC == <<67>>  nx == <<120>>  nAb == <<65, 98>>  nAk == <<65, 107>>  nS == <<83>>

PlainTypes == { GNil, TBool, TInt, TFloat, TStr, TNum, GNilTSl(TNum), GNilP(TNum), GNilBy, GNilSl, GNilMp, GNilTSl(TInt), GNilTSl(GNil), GNilTMp(TInt), GNilTMp(TStr),
                GNilP(TInt), GNilP(TStr), GNilP(GNilP(TInt)), GNilTSl(GNilP(TInt)) }

SAB   == St(<<F(nA, TInt), F(nB, TStr)>>)                                            \* struct{A int64; B string}
STag  == St(<<Tn(F(nA, TInt), <<110>>), F(nx, TInt), Dash(F(nB, TInt)), F(nC, TBool)>>)   \* A `json:"n"`; x; B `json:"-"`; C bool
SQ    == St(<<Qs(F(nA, TInt)), Qs(F(nB, TBool)), Qs(F(nC, TStr)), Qs(Tn(F(nS, TFloat), <<102>>))>>)   \* `,string` on int, bool, string, float ("f")
SQp   == St(<<Qs(F(nA, GNilP(TInt))), Qs(F(nB, GNilP(TStr))), Qs(F(nC, GNilP(GNilP(TInt))))>>)   \* `,string` on *int64, *string; ignored on **int64
SNum  == St(<<F(nA, TNum), Qs(F(nB, TNum)), Qs(F(nC, GNilP(TNum)))>>)                \* json.Number, with `,string`, *json.Number with `,string`
SQx   == St(<<Qs(F(nA, GNilSl)), F(nB, TInt)>>)                                      \* `,string` on a slice: ignored
SEmb  == St(<<F(nC, TInt), Anon(nAb, St(<<F(nA, TInt), F(nx, TInt)>>)), F(nB, TInt)>>)   \* embedded struct: A promoted
SPtr  == St(<<F(nA, GNilP(St(<<F(nB, TInt)>>))), F(nC, GNilP(TInt))>>)               \* A *struct{B int64}; C *int64
SCont == St(<<F(nA, GNilTMp(TInt)), F(nB, GNilTSl(TInt)), F(nC, GNil), F(nS, GNilMp)>>)   \* map[string]int64, []int64, interface{}, map[string]interface{}
SFold == St(<<F(nAk, TInt), F(nS, TInt), Tn(F(nB, TInt), <<97, 75>>)>>)              \* Ak, S, B `json:"aK"`
SNest == St(<<F(nA, SAB), F(nB, GNilTSl(SAB))>>)                                     \* nested struct, slice of structs
StructTypes == { SAB, STag, SQ, SQp, SNum, SQx, SEmb, SPtr, SCont, SFold, SNest, St(<<>>) }

\* ---- JSON values ---------------------------------------------------------
N(l) == Num(l)
jA == <<65>>  ja == <<97>>  jB == <<66>>  jb == <<98>>  jC == <<67>>  jn == <<110>>  jx == <<120>>  jAb == <<65, 98>>
JScalars == { Null, Bool(TRUE), Bool(FALSE), N(<<48>>), N(<<55>>), N(<<45,49,50>>), N(<<45,48>>), N(<<49,46,53>>), N(<<49,46,48>>),
              N(<<49,101,50>>), N(<<49,101,52,48,48>>), N(<<49,101,45,52,48,48>>),
              N(<<57,50,50,51,51,55,50,48,51,54,56,53,52,55,55,53,56,48,56>>),          \* 2^63
              N(<<45,57,50,50,51,51,55,50,48,51,54,56,53,52,55,55,53,56,48,57>>),       \* -2^63 - 1
              N(<<57,57,57,57,57,57,57,57,57>>),                                        \* 999999999
              Str(<<>>), Str(<<97>>), Str(<<89,81,61,61>>), Str(<<89,87,73,61>>), Str(<<89,87,74,106>>), Str(<<33,33,33,33>>),
              Str(<<89,81>>), Str(<<233, 8232, 128512>>), Str(<<65533>>), Str(<<49,50>>) }
\*            ""         "a"        "YQ=="               "YWI="               "YWJj"               "!!!!"    "YQ" (no padding)
JSmall == { Null, Bool(TRUE), N(<<55>>), N(<<49,46,53>>), Str(<<97>>), N(<<49,101,52,48,48>>) }
JArrs == { Arr(<<>>), Arr(<<N(<<55>>)>>), Arr(<<N(<<55>>), Str(<<97>>), Null>>), Arr(<<N(<<49>>), N(<<49,46,53>>), N(<<50>>)>>),
           Arr(<<Arr(<<>>), Obj(<<>>)>>), Arr(<<Null, N(<<51>>)>>), Arr(<<N(<<49,101,52,48,48>>), N(<<50>>)>>),
           Arr(<<Obj(<<Mem(jA, N(<<49>>))>>), Obj(<<Mem(jB, Str(<<120>>)), Mem(ja, N(<<50>>))>>), Null>>) }
JObjsGeneric == { Obj(<<>>), Obj(<<Mem(ja, N(<<49>>))>>), Obj(<<Mem(ja, N(<<49>>)), Mem(jb, Str(<<120>>))>>),
                  Obj(<<Mem(ja, N(<<49>>)), Mem(ja, N(<<50>>))>>),                                      \* repeated name
                  Obj(<<Mem(ja, Str(<<120>>)), Mem(jb, N(<<50>>)), Mem(ja, Null)>>),
                  Obj(<<Mem(<<>>, N(<<49>>)), Mem(<<233>>, Arr(<<N(<<49>>)>>))>>),
                  Obj(<<Mem(ja, Obj(<<Mem(jb, N(<<49,101,52,48,48>>))>>)), Mem(jb, N(<<51>>))>>) }
Generic == JScalars \cup JArrs \cup JObjsGeneric

\* objects aimed at the struct types: member names that match exactly, by folding, or not at all; values of every kind
Names == { jA, ja, jB, jC, jn, jx, jAb, <<102>>, <<83>>, <<383>>, <<65, 107>>, <<97, 8490>>, <<97, 75>>, <<65, 75>> }
\*                                       "f"     "S"     long s   "Ak"         "a" + KELVIN   "aK"       "AK"
FieldVals == { Null, Bool(TRUE), N(<<55>>), N(<<49,46,53>>), Str(<<97>>), Str(<<55>>), Str(<<45,49,50>>), Str(<<48,55>>), Str(<<49,46,53>>),
               Str(<<116,114,117,101>>), Str(<<110,117,108,108>>), Str(<<110,105,108>>), Str(<<34,97,34>>), Str(<<34,97>>), Str(<<34,92,117,48,48,101,57,34>>),
               Str(<<120>>), Str(<<49,120>>), Str(<<>>), Str(<<49,101,52,48,48>>),
               Arr(<<N(<<49>>), N(<<50>>)>>), Arr(<<N(<<49>>), Str(<<97>>)>>), Arr(<<>>),
               Obj(<<Mem(jB, N(<<51>>))>>), Obj(<<Mem(jA, N(<<49>>)), Mem(jB, Str(<<120>>))>>), Obj(<<Mem(ja, N(<<49>>)), Mem(jb, Str(<<120>>))>>),
               Arr(<<Obj(<<Mem(jA, N(<<49>>))>>), Obj(<<Mem(jB, N(<<50>>))>>)>>) }
\* values a repeated member may meet first (the arrays are as long as the longest array of FieldVals: growing a non-empty
\* slice is not modelled)
DupVals == { Null, N(<<55>>), Str(<<97>>), Obj(<<Mem(jB, N(<<51>>))>>), Obj(<<Mem(ja, N(<<49>>)), Mem(jb, Str(<<120>>))>>), Obj(<<Mem(jC, N(<<52>>))>>),
             Arr(<<N(<<55>>), N(<<49,101,52,48,48>>)>>), Arr(<<Obj(<<Mem(jA, N(<<57>>)), Mem(jB, Str(<<122>>))>>), Str(<<97>>)>>) }
Objs1 == { Obj(<<Mem(k, v)>>) : k \in Names, v \in FieldVals }
Objs2 == { Obj(<<Mem(k1, v1), Mem(k2, v2)>>) : k1 \in {jA, ja, jB, jn, jAb}, k2 \in {jA, jB, jC, jx}, v1 \in DupVals, v2 \in FieldVals }
Objs3 == { Obj(<<Mem(jA, v1), Mem(jB, v2), Mem(ja, v3)>>) : v1 \in DupVals, v2 \in {N(<<55>>), Str(<<97>>)}, v3 \in DupVals }

\* `,string` with a float field: only contents that are JSON numbers (or that fail before ParseFloat is reached)
FloatContentOK(v) == v.t # "str" \/ Utf8Seq(v.cp) = <<>> \/ ~(Utf8Seq(v.cp)[1] = 45 \/ DDigit(Utf8Seq(v.cp)[1])) \/ IsJsonNumber(Utf8Seq(v.cp))
OkFor(T, o) == T # SQ \/ \A i \in 1..Len(o.m) : (o.m[i].k \in {<<102>>, <<70>>}) => FloatContentOK(o.m[i].v)

Cases ==
     { <<T, j>> : T \in PlainTypes \cup StructTypes, j \in Generic }
  \cup { <<T, o>> : T \in StructTypes, o \in Objs1 }
  \cup (IF Level >= 2 THEN { <<T, o>> : T \in StructTypes, o \in Objs2 \cup Objs3 } ELSE {})
  \cup { <<GNilTMp(T), Obj(<<Mem(ja, v), Mem(jb, w), Mem(ja, x)>>)>> : T \in {TInt, SAB}, v \in DupVals, w \in JSmall, x \in DupVals }
  \cup { <<GNilTSl(T), Arr(<<v, w>>)>> : T \in {TInt, TStr, GNil, SAB, GNilP(TInt), GNilTSl(TInt)}, v \in JSmall \cup DupVals, w \in JSmall \cup JArrs }
Universe == { x \in Cases : /\ (x[1].g # "struct" \/ x[2].t # "obj" \/ OkFor(x[1], x[2]))
                           /\ ~(x[1].g = "bytes" /\ x[2].t = "arr") }          \* an array of numbers into []byte is not modelled

VARIABLES c, done
dvars == <<c, done>>
DInit == c \in Universe /\ done = FALSE
DNext == ~done /\ done' = TRUE /\ UNCHANGED c
DecSpec == DInit /\ [][DNext]_dvars

Res == Unmarshal(c[1], c[2])
ResD == DecoderDecode(c[1], c[2])
ResS == DecoderStrict(c[1], c[2])

\* the result of decoding into a T is a T
TypeKept == HasType(c[1], Res.v) /\ HasType(c[1], ResD.v)
\* a text without repeated names that decodes without error is a fixpoint: decoding it again into the result changes nothing
Stable == (Res.e = "" /\ NoDupKeys(c[2])) => Dec(c[1], Res.v, c[2], Opt(TRUE, FALSE)) = Res
\* null at the top never fails and gives the zero value
\* every case of this universe is inside what GoDec models
Modelled == Res.e # "dc" /\ ResD.e # "dc"
NullIsZero == c[2] = Null => Res = R(c[1], "")
\* UseNumber matters for what an interface{} ends up holding and for nothing else
RECURSIVE NoIface(_)
NoIface(T) == CASE T.g \in {"nil", "slice", "map"} -> FALSE
                [] T.g \in {"ptr"}                 -> NoIface(T.v)
                [] T.g \in {"tslice", "tmap"}      -> NoIface(T.z)
                [] T.g = "struct"                  -> \A i \in 1..Len(T.f) : NoIface(T.f[i].v)
                [] OTHER                           -> TRUE
UseNumberOnlyIface == NoIface(c[1]) => Res = ResD
\* DisallowUnknownFields changes nothing but the error: the value stored is the same, and an error is added, never removed
StrictOnlyAddsErrors == ResS.v = ResD.v /\ (ResD.e # "" => ResS.e # "")

Emit == IF EmitOn THEN PrintT(ToJson([fam |-> "godec", t |-> c[1], text |-> Enc(c[2], FALSE), want |-> Res.v, err |-> Res.e, wantd |-> ResD.v, errd |-> ResD.e, errs |-> ResS.e])) ELSE TRUE
=============================================================================
