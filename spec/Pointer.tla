------------------------------ MODULE Pointer ------------------------------
(***************************************************************************)
(* RFC 6901 JSON Pointers as the library reads them, and the library's     *)
(* documented array-index dialect (negative indices).                      *)
(*                                                                         *)
(* A pointer text is a sequence of code points; a parsed pointer is a      *)
(* sequence of decoded reference tokens (each a sequence of code points).  *)
(***************************************************************************)
EXTENDS Integers, Sequences, FiniteSets, IndexRule

SLASH == 47
TILDE == 126
MINUS == 45
PLUS  == 43

IsDigit(c) == c >= 48 /\ c <= 57

(***************************************************************************)
(* Token decoding: one left-to-right pass replacing ~1 by / and ~0 by ~    *)
(* (so ~01 becomes ~1, as RFC 6901 section 4 requires).  A ~ followed by   *)
(* anything else is kept as it is (the RFC calls that an error; the        *)
(* library keeps it, and generators never produce it).                     *)
(***************************************************************************)
RECURSIVE DecodeTok(_)
DecodeTok(t) ==
  IF t = <<>> THEN <<>>
  ELSE IF t[1] = TILDE /\ Len(t) >= 2 /\ t[2] = 49 THEN <<SLASH>> \o DecodeTok(SubSeq(t, 3, Len(t)))
  ELSE IF t[1] = TILDE /\ Len(t) >= 2 /\ t[2] = 48 THEN <<TILDE>> \o DecodeTok(SubSeq(t, 3, Len(t)))
  ELSE <<t[1]>> \o DecodeTok(Tail(t))

RECURSIVE EncodeTok(_)
EncodeTok(t) ==
  IF t = <<>> THEN <<>>
  ELSE IF t[1] = TILDE THEN <<TILDE, 48>> \o EncodeTok(Tail(t))
  ELSE IF t[1] = SLASH THEN <<TILDE, 49>> \o EncodeTok(Tail(t))
  ELSE <<t[1]>> \o EncodeTok(Tail(t))

\* split s at every SLASH: "a/b" -> <<"a","b">>, "" -> <<"">>
RECURSIVE SplitSlash(_)
SplitSlash(s) ==
  IF \E i \in 1..Len(s) : s[i] = SLASH
  THEN LET i == CHOOSE i \in 1..Len(s) : s[i] = SLASH /\ \A j \in 1..(i-1) : s[j] # SLASH
       IN  <<SubSeq(s, 1, i-1)>> \o SplitSlash(SubSeq(s, i+1, Len(s)))
  ELSE <<s>>

\* A pointer is "" (the whole document) or /tok/tok...; anything else is not a pointer.
IsPointerText(s) == s = <<>> \/ s[1] = SLASH

ParsePointer(s) ==            \* only for IsPointerText(s)
  IF s = <<>> THEN <<>>
  ELSE LET parts == SplitSlash(Tail(s)) IN [i \in 1..Len(parts) |-> DecodeTok(parts[i])]

RECURSIVE PtrStr(_)
PtrStr(toks) == IF toks = <<>> THEN <<>> ELSE <<SLASH>> \o EncodeTok(toks[1]) \o PtrStr(Tail(toks))

(***************************************************************************)
(* Array index tokens.                                                     *)
(*   [k |-> "dash"]                 the token "-"                          *)
(*   [k |-> "int", i |-> n]         canonical decimal, optionally negative *)
(*   [k |-> "huge", neg |-> b]      canonical but more than 9 digits: out  *)
(*                                  of any array's range (and of TLC's     *)
(*                                  integers)                              *)
(*   [k |-> "odd"]                  a spelling strconv.Atoi would accept   *)
(*                                  but which is not canonical (+1, 01,    *)
(*                                  -0, -01): outside the stated domain    *)
(*   [k |-> "nan"]                  not an index at all                    *)
(***************************************************************************)
AllDigits(t) == t # <<>> /\ \A i \in 1..Len(t) : IsDigit(t[i])

RECURSIVE DigitsVal(_)
DigitsVal(t) == IF t = <<>> THEN 0 ELSE DigitsVal(SubSeq(t, 1, Len(t)-1)) * 10 + (t[Len(t)] - 48)

ParseIndex(t) ==
  IF t = <<MINUS>> THEN [k |-> "dash"]
  ELSE IF AllDigits(t) THEN
         IF Len(t) > 1 /\ t[1] = 48 THEN [k |-> "odd"]
         ELSE IF Len(t) > 9 THEN [k |-> "huge", neg |-> FALSE]
         ELSE [k |-> "int", i |-> DigitsVal(t)]
  ELSE IF Len(t) >= 2 /\ t[1] = MINUS /\ AllDigits(Tail(t)) THEN
         IF t[2] = 48 THEN [k |-> "odd"]
         ELSE IF Len(t) > 10 THEN [k |-> "huge", neg |-> TRUE]
         ELSE [k |-> "int", i |-> 0 - DigitsVal(Tail(t))]
  ELSE IF Len(t) >= 2 /\ t[1] = PLUS /\ AllDigits(Tail(t)) THEN [k |-> "odd"]
  ELSE [k |-> "nan"]

=============================================================================
