------------------------------ MODULE JsonEnc ------------------------------
(***************************************************************************)
(* The spelling the library's encoder gives an abstract value: compact     *)
(* separators; inside strings and member names " and \ get a backslash,    *)
(* LF CR TAB become \n \r \t, other code points below 0x20 become \u00XX,  *)
(* < > & become backslash-u escapes iff esc, U+2028/U+2029 always,         *)
(* everything else is raw UTF-8.                                           *)
(*                                                                         *)
(* Enc is what "as it is spelled in the output" (C12) and "spelled as the  *)
(* encoder itself spells them" (C15) mean at design level.  Byte-exact     *)
(* agreement of the real encoder with Enc is asserted under C17 only.      *)
(***************************************************************************)
EXTENDS JsonValue

HexDigit(n) == IF n < 10 THEN 48 + n ELSE 87 + n          \* lower case, as Go prints
U4(c) == <<92, 117, HexDigit(c \div 4096), HexDigit((c \div 256) % 16),
           HexDigit((c \div 16) % 16), HexDigit(c % 16)>>

Utf8(c) ==
  IF c < 128 THEN <<c>>
  ELSE IF c < 2048 THEN <<192 + (c \div 64), 128 + (c % 64)>>
  ELSE IF c < 65536 THEN <<224 + (c \div 4096), 128 + ((c \div 64) % 64), 128 + (c % 64)>>
  ELSE <<240 + (c \div 262144), 128 + ((c \div 4096) % 64), 128 + ((c \div 64) % 64), 128 + (c % 64)>>

IsHtmlCp(c) == c = 60 \/ c = 62 \/ c = 38

\* c = -1 stands for a byte of a Go string that is not valid UTF-8: the encoder writes the ESCAPE \ufffd
\* for it (a genuine U+FFFD in the string is written raw)
EncCp(c, esc) ==
  IF c = -1 THEN <<92, 117, 102, 102, 102, 100>>
  ELSE IF c = 34 THEN <<92, 34>>
  ELSE IF c = 92 THEN <<92, 92>>
  ELSE IF c = 10 THEN <<92, 110>>
  ELSE IF c = 13 THEN <<92, 114>>
  ELSE IF c = 9  THEN <<92, 116>>
  ELSE IF c < 32 THEN U4(c)
  ELSE IF esc /\ IsHtmlCp(c) THEN U4(c)
  ELSE IF c = 8232 \/ c = 8233 THEN U4(c)
  ELSE Utf8(c)

RECURSIVE EncCps(_, _)
EncCps(s, esc) == IF s = <<>> THEN <<>> ELSE EncCp(s[1], esc) \o EncCps(Tail(s), esc)

EncStr(s, esc) == <<34>> \o EncCps(s, esc) \o <<34>>

RECURSIVE EncCpsLen(_, _)
EncCpsLen(s, esc) == IF s = <<>> THEN 0 ELSE Len(EncCp(s[1], esc)) + EncCpsLen(Tail(s), esc)

(***************************************************************************)
(* Length of the encoding (number literals are code-point sequences).      *)
(***************************************************************************)
RECURSIVE EncLen(_, _)
EncLen(v, esc) ==
  CASE v.t = "null" -> 4
    [] v.t = "bool" -> IF v.b THEN 4 ELSE 5
    [] v.t = "num"  -> Len(v.lit)
    [] v.t = "raw"  -> Len(v.b)                   \* bytes a custom marshaler contributed (GoEnc.tla)
    [] v.t = "str"  -> 2 + EncCpsLen(v.cp, esc)
    [] v.t = "arr"  -> LET n == Len(v.e)
                           f[i \in 0..n] == IF i = 0 THEN 0 ELSE f[i-1] + EncLen(v.e[i], esc)
                       IN  2 + f[n] + (IF n > 1 THEN n - 1 ELSE 0)
    [] v.t = "obj"  -> LET n == Len(v.m)
                           f[i \in 0..n] == IF i = 0 THEN 0
                                            ELSE f[i-1] + 2 + EncCpsLen(v.m[i].k, esc) + 1 + EncLen(v.m[i].v, esc)
                       IN  2 + f[n] + (IF n > 1 THEN n - 1 ELSE 0)

(***************************************************************************)
(* Enc(v, esc): the bytes the encoder writes for v.                        *)
(***************************************************************************)
RECURSIVE EncCpsBytes(_, _)
EncCpsBytes(s, esc) == IF s = <<>> THEN <<>> ELSE EncCp(s[1], esc) \o EncCpsBytes(Tail(s), esc)

RECURSIVE Enc(_, _)
Enc(v, esc) ==
  CASE v.t = "null" -> <<110,117,108,108>>
    [] v.t = "bool" -> IF v.b THEN <<116,114,117,101>> ELSE <<102,97,108,115,101>>
    [] v.t = "num"  -> v.lit
    [] v.t = "raw"  -> v.b
    [] v.t = "str"  -> EncStr(v.cp, esc)
    [] v.t = "arr"  -> LET n == Len(v.e)
                           f[i \in 0..n] == IF i = 0 THEN <<>>
                                            ELSE f[i-1] \o (IF i > 1 THEN <<44>> ELSE <<>>) \o Enc(v.e[i], esc)
                       IN  <<91>> \o f[n] \o <<93>>
    [] v.t = "obj"  -> LET n == Len(v.m)
                           f[i \in 0..n] == IF i = 0 THEN <<>>
                                            ELSE f[i-1] \o (IF i > 1 THEN <<44>> ELSE <<>>)
                                                 \o EncStr(v.m[i].k, esc) \o <<58>> \o Enc(v.m[i].v, esc)
                       IN  <<123>> \o f[n] \o <<125>>

(***************************************************************************)
(* Go encodes a map with its keys sorted (by bytes = by code points).      *)
(***************************************************************************)
RECURSIVE SeqLess(_, _)
SeqLess(a, b) ==
  IF a = <<>> THEN b # <<>>
  ELSE IF b = <<>> THEN FALSE
  ELSE IF a[1] # b[1] THEN a[1] < b[1]
  ELSE SeqLess(Tail(a), Tail(b))

RECURSIVE InsertMem(_, _)
InsertMem(sorted, m) ==
  IF sorted = <<>> THEN <<m>>
  ELSE IF SeqLess(m.k, sorted[1].k) THEN <<m>> \o sorted
  ELSE <<sorted[1]>> \o InsertMem(Tail(sorted), m)

\* the members of ONE object sorted (what lies inside the member values is left as it is: a struct inside a map keeps
\* its declaration order)
SortTop(v) == LET n == Len(v.m)
                  f[i \in 0..n] == IF i = 0 THEN <<>> ELSE InsertMem(f[i-1], v.m[i])
              IN  Obj(f[n])

RECURSIVE SortKeys(_)
SortKeys(v) ==
  CASE v.t = "obj" -> LET n == Len(v.m)
                          f[i \in 0..n] == IF i = 0 THEN <<>> ELSE InsertMem(f[i-1], Mem(v.m[i].k, SortKeys(v.m[i].v)))
                      IN  Obj(f[n])
    [] v.t = "arr" -> Arr([i \in 1..Len(v.e) |-> SortKeys(v.e[i])])
    [] OTHER -> v
=============================================================================

