------------------------------ MODULE MCDecode ------------------------------
(***************************************************************************)
(* The accept/reject boundary of DecodePatch (C11): valid operations of    *)
(* the six kinds and every document obtained from them by deleting,        *)
(* nulling, retyping, renaming (case) or duplicating a member, by changing *)
(* the op name, the element type or the root type.                         *)
(***************************************************************************)
EXTENDS DecodePatch, JsonEnc, JsonText, Json, TLC

CONSTANTS EmitOn, Pairs      \* Pairs >= 1: also two-element documents [valid, mutated] and [mutated, valid]; 2: double mutations

N1   == Num(<<49>>)      \* 1
NBig == Num(<<49,50,51,52,53,54,55,56,57,48,49,50,51,52,53,54,55,56,57,48,49,50,51,52,53,54,55,56,57,48,49,50,51,52,53,54,55,56,57,48,49,50,51,52,53,54,55,56,57,48,49,50,51,52,53,54,55,56,57,48,49,50,51,52,53,54,55,56,57,48>>)      \* 1234567890123456789012345678901234567890123456789012345678901234567890 (70 digits: longer than any scratch buffer)
SA   == Str(<<47,97>>)            \* "/a"
SB   == Str(<<47,98>>)            \* "/b"
SX   == Str(<<120>>)

Vals == { Null, N1, SX, Obj(<<>>), Arr(<<Null>>), Obj(<<Mem(<<97>>, NBig)>>), Num(<<49,101,52,48,48>>), Arr(<<Num(<<45,50,46,53,69,43,57,57,57>>)>>) }

M(k, v) == Mem(k, v)
Base == { Obj(<<M(kOp, Str(sAdd)), M(kPath, SA), M(kValue, v)>>) : v \in Vals }
   \cup { Obj(<<M(kOp, Str(sReplace)), M(kPath, SA), M(kValue, v)>>) : v \in {Null, N1} }
   \cup { Obj(<<M(kOp, Str(sTest)), M(kPath, SA), M(kValue, v)>>) : v \in {Null, N1} }
   \cup { Obj(<<M(kOp, Str(sTest)), M(kPath, SA)>>), Obj(<<M(kOp, Str(sTest)), M(kPath, Str(<<>>))>>) }
   \cup { Obj(<<M(kOp, Str(sReplace)), M(kPath, Str(<<>>)), M(kValue, Null)>>), Obj(<<M(kOp, Str(sCopy)), M(kFrom, Str(<<>>)), M(kPath, SB)>>) }
   \cup { Obj(<<M(kOp, Str(sRemove)), M(kPath, SA)>>) }
   \cup { Obj(<<M(kOp, Str(sMove)), M(kFrom, SA), M(kPath, SB)>>) }
   \cup { Obj(<<M(kOp, Str(sCopy)), M(kFrom, SA), M(kPath, SB)>>) }
   \cup { Obj(<<M(kPath, SA), M(kOp, Str(sAdd)), M(<<120>>, N1), M(kValue, N1)>>) }     \* other order, extra member

Retype == { Null, N1, Bool(TRUE), SX, Arr(<<>>), Obj(<<>>), Arr(<<SX>>) }
Upper(k) == [i \in 1..Len(k) |-> IF k[i] >= 97 /\ k[i] <= 122 THEN k[i] - 32 ELSE k[i]]
Cap(k)   == [i \in 1..Len(k) |-> IF i = 1 THEN k[i] - 32 ELSE k[i]]
OddOps   == { Str(Upper(sAdd)), Str(Cap(sAdd)), Str(<<>>), Str(<<100,101,108,101,116,101>>), Str(sAdd \o <<32>>) }

\* all single mutations of one operation object
Mut(o) ==
  LET n == Len(o.m) IN
  \* delete member i
     { Obj(RemoveAt(o.m, i)) : i \in 1..n }
  \* retype / null member i
  \cup { Obj([o.m EXCEPT ![i].v = r]) : i \in 1..n, r \in Retype }
  \* rename member i (case)
  \cup { Obj([o.m EXCEPT ![i].k = Upper(o.m[i].k)]) : i \in 1..n }
  \cup { Obj([o.m EXCEPT ![i].k = Cap(o.m[i].k)]) : i \in 1..n }
  \* duplicate member i with a wrong value before it (last wins: still fine) or after it (last wins: wrong)
  \cup { Obj(<<Mem(o.m[i].k, r)>> \o o.m) : i \in 1..n, r \in {Null, N1} }
  \cup { Obj(o.m \o <<Mem(o.m[i].k, r)>>) : i \in 1..n, r \in {Null, N1, Arr(<<>>)} }
  \* odd op names
  \cup { Obj([o.m EXCEPT ![i].v = x]) : i \in { j \in 1..n : o.m[j].k = kOp }, x \in OddOps }
  \* extra members are ignored - also a "from" / "value" member on an operation that does not use it, whatever its type
  \cup { Obj(Append(o.m, Mem(<<101,120,116,114,97>>, N1))) }
  \cup (IF HasM(o, kFrom) THEN {} ELSE { Obj(Append(o.m, Mem(kFrom, r))) : r \in {Null, N1, Arr(<<>>)} })
  \cup (IF HasM(o, kValue) THEN {} ELSE { Obj(<<Mem(kValue, r)>> \o o.m) : r \in {Null, Obj(<<>>)} })

Good == CHOOSE o \in Base : o.m[1].v = Str(sRemove)
ElemSet == Base \cup UNION { Mut(o) : o \in Base } \cup { Null, N1, SX, Arr(<<>>), Bool(FALSE) }
Docs ==
     { Arr(<<e>>) : e \in ElemSet }
  \cup { Arr(<<>>) }
  \cup { Obj(<<>>), SX, N1, Bool(TRUE), Good }                           \* non-array roots
  \cup (IF Pairs >= 1 THEN { Arr(<<Good, e>>) : e \in ElemSet } \cup { Arr(<<e, Good>>) : e \in ElemSet } ELSE {})
  \cup (IF Pairs >= 2 THEN { Arr(<<e>>) : e \in UNION { Mut(o) : o \in UNION { Mut(b) : b \in Base } } } ELSE {})

VARIABLES pd, verdict
dvars == <<pd, verdict>>
DInit == pd \in Docs /\ verdict = "?"
DNext == verdict = "?" /\ verdict' = (IF Accepts(pd) THEN "accept" ELSE "reject") /\ UNCHANGED pd
DSpec == DInit /\ [][DNext]_dvars

\* byte-level neighbours of the document's text: trailing data, a second value, a truncation, surrounding
\* white space; the grammar (JsonText) and Accepts decide each
TextVerdict(b) == LET p == ParseText(b) IN [w |-> b, accept |-> p.ok /\ Accepts(p.v)]
TextMutants ==
  LET t == Enc(pd, FALSE) IN
  << TextVerdict(t \o <<93>>), TextVerdict(t \o <<32, 120>>), TextVerdict(t \o t), TextVerdict(t \o <<44>>),
     TextVerdict(SubSeq(t, 1, Len(t) - 1)), TextVerdict(<<32, 10>> \o t \o <<9, 13>>), TextVerdict(t \o <<0>>) >>
TextSelfCheck == ParseText(Enc(pd, FALSE)) = [ok |-> TRUE, v |-> pd]

Emit ==
  IF EmitOn THEN
    PrintT(ToJson([fam |-> "decode", patch |-> pd, accept |-> Accepts(pd), texts |-> TextMutants,
                   acc |-> IF Accepts(pd) THEN [i \in 1..Len(pd.e) |-> Accessors(pd.e[i])] ELSE <<>>]))
  ELSE TRUE

\* sanity of the universe: every base operation is accepted, and the boundary is two-sided
BaseAccepted == \A o \in Base : AcceptsOp(o)
=============================================================================
