------------------------------ MODULE TraceApi ------------------------------
(***************************************************************************)
(* Trace validation (direction B): a file of events recorded from the REAL *)
(* library by harness/cmd/record is checked to be a behaviour of the       *)
(* specification.  Every event carries its arguments and the projected     *)
(* result, so the search is linear; a trace file holds many independent    *)
(* traces, each starting with a Reset event (patch family) or consisting   *)
(* of one event (merge, create, compose, equal).                           *)
(*                                                                         *)
(* Deterministic steps are judged through the variable `bad`: it names the *)
(* clause the observation violates, and the invariant NoMismatch makes TLC *)
(* stop with the number of the offending line.  Acceptance of the whole    *)
(* file is the postcondition Accepted (every line was consumed).           *)
(***************************************************************************)
EXTENDS PatchOps, Merge7396, Equal, Scanner, JsonText, GoDec, Json, TLC

CONSTANT TraceFile, Mode,      \* Mode: "value" (structural, C01..) | "ordered" (member order and literals, C05) | "bytes" (C15: the
                               \* raw output is read by the grammar of JsonText and checked for raw HTML characters)
         Dialect               \* "v5" | "v4": the legacy root package claims less (C18), see LegacyDontCare

Trace == ndJsonDeserialize(TraceFile)

VARIABLES l,        \* next line to consume (1-based)
          doc,      \* patch family: the document at that moment
          opts, copied,
          status,   \* "run" | "stopped" (after a failure the trace has ended) | "dc" (after a don't-care)
          bad       \* "" or the clause that the last consumed event violates
tvars == <<l, doc, opts, copied, status, bad>>

TInit == l = 1 /\ doc = Null /\ opts = [neg |-> TRUE, limit |-> 0, allow |-> FALSE, ensure |-> FALSE, esc |-> TRUE]
         /\ copied = [lo |-> 0, hi |-> 0] /\ status = "stopped" /\ bad = ""

Ev == Trace[l]
Same(a, b) == IF Mode = "ordered" THEN a = b ELSE JEq(a, b)

(***************************************************************************)
(* The legacy root package (C18) states less than v5: it does not offer a  *)
(* root-replacing add or copy from "", compares string SPELLINGS in test,  *)
(* and only a failed test, a remove/move of an absent location and an      *)
(* out-of-range index are stated to be errors.  Everything else is outside *)
(* its stated domain.                                                      *)
(***************************************************************************)
LegacyErrLabels == { "TestFail", "TestFailAbsent", "RemoveAbsentMember", "RemoveNoParent", "RemoveBadIndex",
                     "MoveFromAbsentMember", "MoveFromNoParent", "MoveFromBadIndex", "AddBadIndex", "ReplaceBadIndex",
                     "TestBadIndex", "CopyFromBadIndex", "CopyOverLimit" }
AwkwardCp(c) == c \in {60, 62, 38, 34, 92, 8232, 8233} \/ c < 32
RECURSIVE HasAwkward(_)
HasAwkward(v) ==
  CASE v.t = "str" -> \E i \in 1..Len(v.cp) : AwkwardCp(v.cp[i])
    [] v.t = "arr" -> \E i \in 1..Len(v.e) : HasAwkward(v.e[i])
    [] v.t = "obj" -> \E i \in 1..Len(v.m) : (\E j \in 1..Len(v.m[i].k) : AwkwardCp(v.m[i].k[j])) \/ HasAwkward(v.m[i].v)
    [] OTHER -> FALSE
LegacyDontCare(op, r) ==
  /\ Dialect = "v4"
  /\ \/ op.op = "add" /\ op.path = <<>>
     \/ op.op = "copy" /\ op.from = <<>>
     \/ op.op = "test" /\ HasAwkward(op.value)
     \/ r.k = "err" /\ r.lab \notin LegacyErrLabels

\* C15 on the raw output of a successful Apply: one well-formed JSON text (by the specification's own grammar) that
\* denotes the reference document, free of raw < > & U+2028 U+2029 when EscapeHTML is on
RawHtmlIn(b) == \E i \in 1..Len(b) : IsHtml(b[i]) \/ IsLineSep(b, i)
OutputBytesBad(b, want, esc) ==
  LET p == ParseText(b) IN
  IF ~p.ok THEN "the output is not a well-formed RFC 8259 text (specification grammar)"
  ELSE IF ~JEq(p.v, want) THEN "the output, read by the specification grammar, is not the reference document"
  ELSE IF esc /\ RawHtmlIn(b) THEN "EscapeHTML is on but the output contains a raw < > & or U+2028/9"
  ELSE ""

Reset ==
  /\ Ev.ev = "Reset"
  /\ doc' = Ev.doc /\ opts' = Ev.opts /\ copied' = [lo |-> 0, hi |-> 0] /\ status' = "run" /\ bad' = ""

\* one operation of a patch, observed through the prefix ops[1..i]
Op ==
  /\ Ev.ev = "op"
  /\ IF status = "dc" THEN bad' = "" /\ UNCHANGED <<doc, opts, copied, status>>      \* after a don't-care nothing is asserted until the next Reset
     ELSE IF status # "run" THEN bad' = "event after the end of its trace" /\ UNCHANGED <<doc, opts, copied, status>>
     ELSE
       LET a == ApplyOp(doc, Ev.op, opts, copied, NoSz) IN
       /\ UNCHANGED opts
       /\ IF Ev.panic THEN bad' = "the call panicked" /\ UNCHANGED <<doc, copied, status>>
          ELSE IF a.r.k = "dc" \/ LegacyDontCare(Ev.op, a.r) THEN
               \* outside the stated domain: nothing is asserted and the trace ends here
               bad' = "" /\ status' = "dc" /\ UNCHANGED <<doc, copied>>
          ELSE IF Ev.decode THEN bad' = "DecodePatch rejected a well-formed patch" /\ UNCHANGED <<doc, copied, status>>
          ELSE IF Ev.malformed THEN bad' = "the output is not well-formed JSON" /\ UNCHANGED <<doc, copied, status>>
          ELSE IF a.r.k = "ok" THEN
               /\ doc' = a.r.v /\ copied' = a.copied /\ status' = "run"
               /\ bad' = IF ~Ev.ok THEN "the reference applies the operation, the library returned an error"
                         ELSE IF ~Same(Ev.post, a.r.v) THEN "the document after the operation differs from the reference"
                         ELSE IF Mode = "bytes" THEN OutputBytesBad(Ev.bytes, a.r.v, opts.esc)
                         ELSE ""
          ELSE \* the reference fails with class a.r.cls
               /\ status' = "stopped" /\ UNCHANGED <<doc, copied>>
               /\ bad' = IF Ev.ok THEN "the reference rejects the operation, the library succeeded"
                         ELSE IF ~Ev.outnil THEN "a failing Apply returned a document"
                         ELSE IF Dialect = "v4" THEN ""            \* C18 states "reported as errors", no class
                         ELSE IF (a.r.cls = "TestFailed") # Ev.errc.test THEN "errors.Is(err, ErrTestFailed) does not match the failure"
                         ELSE IF (a.r.cls = "CopyLimit") # Ev.errc.copy THEN "*AccumulatedCopySizeError does not match the failure"
                         ELSE IF a.r.cls = "Missing" /\ ~Ev.errc.missing THEN "errors.Is(err, ErrMissing) is false for an absent member / unreachable parent"
                         ELSE ""

MergeEv ==
  /\ Ev.ev = "merge"
  /\ UNCHANGED <<doc, opts, copied>> /\ status' = "stopped"
  /\ bad' = IF Ev.panic THEN "MergePatch panicked"
            ELSE IF Ev.doc.t = "null" THEN ""                       \* a null document is outside C02's domain
            ELSE IF Ev.malformed THEN "MergePatch output is not well-formed JSON"
            ELSE IF ~Ev.ok THEN "MergePatch rejected well-formed inputs"
            ELSE IF ~IsMPResult(Ev.doc, Ev.patch, Ev.out) THEN "MergePatch result is not RFC 7396's"
            ELSE IF ~MergeOrderOK(Ev.doc, Ev.patch, Ev.out) THEN "surviving members are not in document order ahead of new ones"
            ELSE IF Ev.patch.t \notin {"obj", "arr"} /\ ~Ev.verbatim THEN "a literal patch did not come back verbatim"
            ELSE IF Ev.patch.t = "arr" /\ Ev.out # Ev.patch THEN "an array patch was edited"
            ELSE ""

CreateEv ==
  /\ Ev.ev = "create"
  /\ UNCHANGED <<doc, opts, copied>> /\ status' = "stopped"
  /\ bad' = IF Ev.panic THEN "CreateMergePatch / MergePatch panicked"
            ELSE IF CreateKind(Ev.a, Ev.b) # "obj" THEN ""
            ELSE IF Ev.malformed THEN "CreateMergePatch output is not well-formed JSON"
            ELSE IF ~Ev.ok THEN "CreateMergePatch rejected two objects"
            ELSE IF ~IsMinimalPatch(Ev.a, Ev.b, Ev.out) THEN "the created patch is not minimal (C03's clauses)"
            ELSE IF ((Ev.out.m = <<>>) # JEq(Ev.a, Ev.b)) THEN "the patch is {} exactly when A and B are equal - violated"
            ELSE IF HasNullMember(Ev.b) THEN ""
            ELSE IF ~JEq(MP(Ev.a, Ev.out), Ev.b) THEN "applying the created patch per RFC 7396 does not give B"
            ELSE IF ~Ev.applied_ok \/ ~JEq(Ev.applied, Ev.b) THEN "the library's MergePatch(A, created patch) does not give B"
            ELSE ""

ComposeEv ==
  /\ Ev.ev = "compose"
  /\ UNCHANGED <<doc, opts, copied>> /\ status' = "stopped"
  /\ bad' = IF Ev.panic THEN "MergeMergePatches panicked"
            ELSE IF ~(Ev.p1.t = "obj" /\ Compatible(Ev.p1, Ev.p2)) THEN ""       \* outside C07's proviso
            ELSE IF Ev.malformed THEN "MergeMergePatches output is not well-formed JSON"
            ELSE IF ~Ev.ok THEN "MergeMergePatches rejected two merge patches"
            ELSE IF ~JEq(Ev.out, Compose(Ev.p1, Ev.p2)) THEN "the combined patch is not the composition"
            ELSE IF \E i \in 1..Len(Ev.docs) : Ev.docs[i].t # "null" /\ ~JEq(MP(Ev.docs[i], Ev.out), MP(MP(Ev.docs[i], Ev.p1), Ev.p2))
                 THEN "applying the combined patch (reference MergePatch) differs from applying P1 then P2"
            ELSE IF ~Ev.allok THEN "the library's MergePatch failed on the combined or the sequential application"
            ELSE IF \E i \in 1..Len(Ev.docs) : ~JEq(Ev.comb[i], Ev.seq[i]) \/ ~JEq(Ev.seq[i], MP(MP(Ev.docs[i], Ev.p1), Ev.p2))
                 THEN "the library's combined and sequential applications differ"
            ELSE ""

EqualEv ==
  /\ Ev.ev = "equal"
  /\ UNCHANGED <<doc, opts, copied>> /\ status' = "stopped"
  /\ bad' = IF Ev.panic THEN "Equal panicked"
            ELSE IF EqualDontCare(Ev.a, Ev.b) THEN ""
            ELSE IF Ev.got # EqualVerdict(Ev.a, Ev.b) THEN "Equal's verdict is not structural equality"
            ELSE ""

\* one text given to the embedded codec (C16/C17): the scanner automaton and the grammar must agree with each
\* other and with the observed verdict, and the observed transducer outputs must be the specification's
ScanEv ==
  /\ Ev.ev = "scan"
  /\ UNCHANGED <<doc, opts, copied>> /\ status' = "stopped"
  /\ LET w == Ev.text
         v == Valid(w)
         p == ParseText(w)
     IN bad' = IF Ev.panic THEN "the codec panicked"
               ELSE IF v # p.ok THEN "SPEC: scanner automaton and grammar disagree on this text"
               ELSE IF Ev.valid # v THEN "Valid() disagrees with the RFC 8259 grammar"
               ELSE IF Ev.unmarshal_ok # v THEN "Unmarshal accepts/rejects differently from the grammar"
               ELSE IF ~v THEN (IF Ev.compact_ok \/ Ev.indent_ok THEN "Compact/Indent accepted an ill-formed text" ELSE "")
               ELSE IF ~Ev.compact_ok \/ Ev.compact # Compact(w, FALSE).out THEN "Compact output differs from the specification transducer"
               ELSE IF ~Ev.indent_ok \/ Ev.indent # Indent(w, <<>>, <<32, 32>>).out THEN "Indent output differs from the specification transducer"
               ELSE IF Ev.htmlesc # HTMLEscape(w) THEN "HTMLEscape output differs from the specification transducer"
               ELSE IF Ev.escaped # Compact(w, TRUE).out THEN "compact-with-escaping output differs from the specification transducer"
               ELSE IF NoDupKeys(p.v) /\ (~Ev.roundtrip_ok \/ ~JEq(Ev.roundtrip, p.v)) THEN "decode then encode does not reproduce the value"   \* duplicate member names: outside the domain
               ELSE IF p.v.t = "obj" /\ NoDupKeys(p.v) /\ Ev.keys # Keys(p.v) THEN "the key list is not the member names in document order"
               ELSE ""

\* one text decoded INTO a value of a Go type (C17): the value stored and the presence of an error must be what the
\* decoding rules of GoDec say for that type and text (cases GoDec does not model are accepted as they are)
GoDecEv ==
  /\ Ev.ev = "godec"
  /\ UNCHANGED <<doc, opts, copied>> /\ status' = "stopped"
  /\ LET p == ParseText(Ev.text) IN
     bad' = IF Ev.panic THEN "the codec panicked"
            ELSE IF ~p.ok THEN (IF Ev.err THEN "" ELSE "an ill-formed text was decoded without an error")
            ELSE LET r == Dec(Ev.t, Ev.t, p.v, Opt(Ev.un, Ev.strict)) IN
                 IF r.e = "dc" THEN (IF PrintT("GODEC-DC") THEN "" ELSE "")      \* counted by the driver (vacuity guard)
                 ELSE IF Ev.err # (r.e # "") THEN "an error is returned exactly when the decoding rules (GoDec.tla) say so: violated"
                 ELSE IF ~GoSame(r.v, Ev.got) THEN "the value stored differs from what the decoding rules (GoDec.tla) say"
                 ELSE ""

\* one Go value encoded by the embedded codec (C17): the bytes must be GoEnc!GoMarshal of the recorded value, for both
\* settings of the HTML-escape switch, through MarshalIndent and through an Encoder
GoEncEv ==
  /\ Ev.ev = "goenc"
  /\ UNCHANGED <<doc, opts, copied>> /\ status' = "stopped"
  /\ LET g == Ev.g IN
     bad' = IF Ev.panic THEN "the codec panicked"
            ELSE IF GoUnspecified(g) THEN (IF PrintT("GOENC-DC") THEN "" ELSE "")
            ELSE IF GoFails(g) THEN (IF Ev.esc_ok \/ Ev.raw_ok \/ Ev.indent_ok \/ Ev.stream_ok
                                     THEN "Marshal succeeds although a MarshalJSON method fails or returns ill-formed text" ELSE "")
            ELSE LET be == GoMarshal(g, TRUE)
                     br == GoMarshal(g, FALSE)
                     ind == Indent(be, <<62>>, <<32, 32>>) IN
                 IF ~Ev.esc_ok \/ Ev.esc # be THEN "MarshalEscaped(v, true) differs from the encoding rules (GoEnc.tla)"
                 ELSE IF ~Ev.raw_ok \/ Ev.raw # br THEN "MarshalEscaped(v, false) differs from the encoding rules (GoEnc.tla)"
                 ELSE IF Ev.indent_ok # ind.ok THEN "MarshalIndent succeeds exactly when the encoding is well-formed: violated"
                 ELSE IF ind.ok /\ Ev.indent # ind.out THEN "MarshalIndent output is not Indent of the encoding"
                 ELSE IF ~Ev.stream_ok \/ Ev.stream # br \o <<10>> THEN "Encoder.Encode output is not the encoding followed by a newline"
                 ELSE ""

TNext == /\ l <= Len(Trace) /\ bad = ""
         /\ l' = l + 1
         /\ (Reset \/ Op \/ MergeEv \/ CreateEv \/ ComposeEv \/ EqualEv \/ ScanEv \/ GoDecEv \/ GoEncEv)
TSpec == TInit /\ [][TNext]_tvars

NoMismatch == bad = ""
\* every line was consumed: l ends at Len(Trace) + 1 (the search is deterministic: one successor per state)
Accepted == TLCGet("stats").diameter = Len(Trace) + 1
=============================================================================
