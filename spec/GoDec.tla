------------------------------- MODULE GoDec -------------------------------
(***************************************************************************)
(* What the embedded codec's Unmarshal stores INTO typed Go values (C17):  *)
(* the decoding rules of encoding/json, which the fork must share - null   *)
(* handling, type mismatches that are remembered while decoding goes on,   *)
(* struct field matching (exact, then case-folded), tags, `,string`,       *)
(* embedded structs, pointers that are allocated, maps that are merged     *)
(* into, base64 for []byte, int64 range.  Structured like decode.go:       *)
(*    Dec        = decodeState.value / array / object / literalStore       *)
(*    DecQuoted  = the destring branch of object() + literalStore(quoted)  *)
(*    Iface      = valueInterface / arrayInterface / objectInterface       *)
(*                                                                         *)
(* A Go TYPE is represented by its zero value in the value model of GoEnc  *)
(* (extended with typed slices and maps):                                  *)
(*    interface{} = [g |-> "nil"],  bool = false,  int64 = 0,  float64 = 0 *)
(*    (an interface{} may also hold [g |-> "number", lit]: json.Number)    *)
(*    string = "",  []byte = nil,  []interface{} = nil,                    *)
(*    map[string]interface{} = nil,  []T = [g |-> "tslice", nil, e, z],    *)
(*    map[string]T = [g |-> "tmap", nil, m, z]   (z = the zero value of T),*)
(*    *T = nil pointer carrying the zero value of T,  struct = its fields  *)
(* Dec(T, cur, j): T the static type, cur the value the target holds (a    *)
(* repeated member name decodes into what the first occurrence left), j    *)
(* the JSON value.  The result is [v, e]: the value stored and             *)
(*    e = ""       no error                                                *)
(*    e = "saved"  a type mismatch was remembered (d.saveError) and        *)
(*                 decoding went on: Unmarshal returns an error AND the    *)
(*                 rest of the value is filled in                          *)
(*    e = "hard"   decoding stopped there (return err)                     *)
(*    e = "dc"     the case is outside what this specification models (see *)
(*                 the list at Dec): nothing is claimed about the result   *)
(* float64 values are named by a literal denoting them; which float64 that *)
(* is (rounding) is outside this specification - the harness compares      *)
(* numerically.  Only overflow (an error) is decided here.                 *)
(***************************************************************************)
EXTENDS GoEnc, JsonText, SequencesExt, TLC

GNil == [g |-> "nil"]
GB(b) == [g |-> "bool", b |-> b]
GI(i) == [g |-> "int", i |-> i]
GFl(l) == [g |-> "float", lit |-> l]
GNum(l) == [g |-> "number", lit |-> l]           \* json.Number: a string type holding the literal
GS(b) == [g |-> "str", bytes |-> b]
GSl(e) == [g |-> "slice", nil |-> FALSE, e |-> e]
GNilSl == [g |-> "slice", nil |-> TRUE, e |-> <<>>]
GBy(b) == [g |-> "bytes", nil |-> FALSE, b |-> b]
GNilBy == [g |-> "bytes", nil |-> TRUE, b |-> <<>>]
GMp(m) == [g |-> "map", nil |-> FALSE, m |-> m]
GNilMp == [g |-> "map", nil |-> TRUE, m |-> <<>>]
GTSl(z, e) == [g |-> "tslice", nil |-> FALSE, e |-> e, z |-> z]
GNilTSl(z) == [g |-> "tslice", nil |-> TRUE, e |-> <<>>, z |-> z]
GTMp(z, m) == [g |-> "tmap", nil |-> FALSE, m |-> m, z |-> z]
GNilTMp(z) == [g |-> "tmap", nil |-> TRUE, m |-> <<>>, z |-> z]
GP(v) == [g |-> "ptr", nil |-> FALSE, v |-> v]
GNilP(z) == [g |-> "ptr", nil |-> TRUE, v |-> z]
GKV(k, v) == [k |-> k, v |-> v]

R(v, e) == [v |-> v, e |-> e]
Worse(a, b) == IF a = "dc" \/ b = "dc" THEN "dc" ELSE IF a = "hard" \/ b = "hard" THEN "hard" ELSE IF a = "saved" \/ b = "saved" THEN "saved" ELSE ""
Stops(e) == e = "hard" \/ e = "dc"

Utf8Seq(cps) == FoldLeft(LAMBDA acc, c : acc \o Utf8(c), <<>>, cps)

(***************************************************************************)
(* numbers                                                                 *)
(***************************************************************************)
DDigit(c) == c >= 48 /\ c <= 57
\* strconv.ParseInt(s, 10, 64) succeeds: an optional minus, then digits only, within int64
IsIntText(s) ==
  /\ s # <<>>
  /\ LET d == IF s[1] = 45 THEN Tail(s) ELSE s IN d # <<>> /\ \A i \in 1..Len(d) : DDigit(d[i])
MaxInt64 == <<57,50,50,51,51,55,50,48,51,54,56,53,52,55,55,53,56,48,55>>        \* 9223372036854775807
MinInt64Mag == <<57,50,50,51,51,55,50,48,51,54,56,53,52,55,55,53,56,48,56>>     \* 9223372036854775808
Int64OK(s) ==
  LET neg == s[1] = 45
      m   == NcStripLead(IF neg THEN Tail(s) ELSE s)
      lim == IF neg THEN MinInt64Mag ELSE MaxInt64
  IN  Len(m) < 19 \/ (Len(m) = 19 /\ ~SeqLess(lim, m))
IntOf(s) ==
  LET neg == s[1] = 45
      m   == NcStripLead(IF neg THEN Tail(s) ELSE s)
  IN  IF neg THEN 0 - NcVal(m) ELSE NcVal(m)
\* TLC's integers are 32 bits wide: a decoded integer of more than nine digits is not represented ("dc")
IntFits(s) == Len(NcStripLead(IF s[1] = 45 THEN Tail(s) ELSE s)) <= 9
IntResult(cur, s) == IF ~(IsIntText(s) /\ Int64OK(s)) THEN R(cur, "saved") ELSE IF IntFits(s) THEN R(GI(IntOf(s)), "") ELSE R(cur, "dc")

\* a JSON number literal too large for a float64 (decided away from the boundary: the universe
\* has no literal between 1.7e308 and 1e309)
FloatOverflow(lit) ==
  LET c == NumClass(lit) IN ~c.zero /\ (IF c.big # <<>> THEN c.big[1] # 45 ELSE Len(c.d) + c.e > 309)
IsJsonNumber(s) == s # <<>> /\ NumberEnd(s, 1) = Len(s) + 1

(***************************************************************************)
(* base64 (encoding/base64.StdEncoding: padded, trailing bits not checked) *)
(***************************************************************************)
B64Inv(c) == IF c >= 65 /\ c <= 90 THEN c - 65 ELSE IF c >= 97 /\ c <= 122 THEN c - 71
             ELSE IF c >= 48 /\ c <= 57 THEN c + 4 ELSE IF c = 43 THEN 62 ELSE IF c = 47 THEN 63 ELSE -1
RECURSIVE B64Dec(_)
B64Dec(s) ==
  LET bad == [ok |-> FALSE, b |-> <<>>] IN
  IF s = <<>> THEN [ok |-> TRUE, b |-> <<>>]
  ELSE IF Len(s) < 4 THEN bad
  ELSE LET a == B64Inv(s[1])  b == B64Inv(s[2])  c == B64Inv(s[3])  d == B64Inv(s[4])  last == Len(s) = 4 IN
       IF a < 0 \/ b < 0 THEN bad
       ELSE IF s[3] = 61 THEN (IF last /\ s[4] = 61 THEN [ok |-> TRUE, b |-> <<a * 4 + b \div 16>>] ELSE bad)
       ELSE IF c < 0 THEN bad
       ELSE IF s[4] = 61 THEN (IF last THEN [ok |-> TRUE, b |-> <<a * 4 + b \div 16, (b % 16) * 16 + c \div 4>>] ELSE bad)
       ELSE IF d < 0 THEN bad
       ELSE LET r == B64Dec(SubSeq(s, 5, Len(s))) IN
            IF r.ok THEN [ok |-> TRUE, b |-> <<a * 4 + b \div 16, (b % 16) * 16 + c \div 4, (c % 4) * 64 + d>> \o r.b] ELSE bad

(***************************************************************************)
(* maps: string keys are byte sequences; the entry of a repeated key is    *)
(* replaced where it stands (the order of entries means nothing)           *)
(***************************************************************************)
SetKey(m, k, v) ==
  IF \E i \in 1..Len(m) : m[i].k = k
  THEN [i \in 1..Len(m) |-> IF m[i].k = k THEN GKV(k, v) ELSE m[i]]
  ELSE Append(m, GKV(k, v))

(***************************************************************************)
(* decoding into interface{}                                               *)
(***************************************************************************)
RECURSIVE Iface(_, _)
Iface(j, un) ==
  CASE j.t = "null" -> R(GNil, "")
    [] j.t = "bool" -> R(GB(j.b), "")
    [] j.t = "num"  -> IF un THEN R(GNum(j.lit), "")                  \* json.Number: the literal, never out of range
                       ELSE IF FloatOverflow(j.lit) THEN R(GNil, "saved") ELSE R(GFl(j.lit), "")
    [] j.t = "str"  -> R(GS(Utf8Seq(j.cp)), "")
    [] j.t = "arr"  -> LET rs == [i \in 1..Len(j.e) |-> Iface(j.e[i], un)] IN
                       R(GSl([i \in 1..Len(j.e) |-> rs[i].v]),
                         FoldLeft(LAMBDA acc, r : Worse(acc, r.e), "", rs))
    [] OTHER        -> LET st == FoldLeft(LAMBDA acc, mem : LET r == Iface(mem.v, un) IN
                                             R(SetKey(acc.v, Utf8Seq(mem.k), r.v), Worse(acc.e, r.e)),
                                          R(<<>>, ""), j.m)
                       IN  R(GMp(st.v), st.e)

(***************************************************************************)
(* struct fields as the decoder sees them: declaration order, embedded     *)
(* structs flattened, `json:"-"` and unexported fields left out.  (The     *)
(* universes have no two fields with the same JSON name, so the dominance  *)
(* rules of typeFields never come into play.)                              *)
(***************************************************************************)
QuotableKind(v) == v.g \in {"bool", "int", "float", "str", "number"}     \* (json.Number is a string type)
\* `,string` applies to bool, integer, float and string fields and to pointers to them (typeFields looks through ONE pointer)
Quotable(v) == QuotableKind(v) \/ (v.g = "ptr" /\ QuotableKind(v.v))
RECURSIVE FlatFields(_, _)
FlatFields(f, pre) ==
  FoldLeft(LAMBDA acc, i :
             LET x == f[i] IN
             IF x.dash THEN acc
             ELSE IF x.anon /\ x.v.g = "struct" /\ ~x.tagged THEN acc \o FlatFields(x.v.f, pre \o <<i>>)
             ELSE IF ~Exported(x.name) THEN acc
             ELSE Append(acc, [name |-> IF x.tname # <<>> THEN x.tname ELSE x.name, path |-> pre \o <<i>>,
                               quoted |-> x.str /\ Quotable(x.v)]),
           <<>>, [i \in 1..Len(f) |-> i])

RECURSIVE GetF(_, _), SetF(_, _, _)
GetF(s, p) == IF Len(p) = 1 THEN s.f[p[1]].v ELSE GetF(s.f[p[1]].v, Tail(p))
SetF(s, p, x) ==
  IF Len(p) = 1 THEN [s EXCEPT !.f[p[1]].v = x]
  ELSE [s EXCEPT !.f[p[1]].v = SetF(s.f[p[1]].v, Tail(p), x)]

\* bytes.EqualFold of an ASCII field name with a key: letters fold, and so do U+212A KELVIN SIGN (k) and U+017F LONG S (s)
FoldCp(c) == IF c >= 97 /\ c <= 122 THEN c - 32 ELSE IF c = 8490 THEN 75 ELSE IF c = 383 THEN 83 ELSE c
EqualFold(name, key) == Len(name) = Len(key) /\ \A i \in 1..Len(name) : FoldCp(name[i]) = FoldCp(key[i])
FieldFor(fl, key) ==      \* index into fl, 0 = no such field (the member is skipped)
  LET ex == {i \in 1..Len(fl) : GoUtf8(fl[i].name) = key}
      fo == {i \in 1..Len(fl) : EqualFold(fl[i].name, key)}
      min(S) == CHOOSE i \in S : \A k \in S : i <= k
  IN  IF ex # {} THEN min(ex) ELSE IF fo # {} THEN min(fo) ELSE 0

(***************************************************************************)
(* literalStore(item, v, fromQuoted = TRUE): the `,string` option.  ft is  *)
(* bool, int64, float64 or string (DecQuoted), or a pointer to one of them *)
(* (DecQuotedField: the pointer is allocated by indirect() only when the   *)
(* content does not start like null, and BEFORE the content is judged).    *)
(***************************************************************************)
TrueText == <<116,114,117,101>>
FalseText == <<102,97,108,115,101>>
NullText == <<110,117,108,108>>
DecQuoted(ft, cur, j) ==
  IF j.t = "null" THEN R(cur, "")                       \* null leaves a scalar as it is
  ELSE IF j.t # "str" THEN R(cur, "saved")              \* "trying to unmarshal unquoted value"
  ELSE LET s == Utf8Seq(j.cp) IN
       IF s = <<>> THEN R(cur, "saved")
       ELSE IF s[1] = 110 THEN (IF s = NullText THEN R(cur, "") ELSE R(cur, "saved"))
       ELSE IF s[1] = 116 \/ s[1] = 102 THEN
              (IF s # TrueText /\ s # FalseText THEN R(cur, "saved")
               ELSE IF ft.g = "bool" THEN R(GB(s = TrueText), "") ELSE R(cur, "saved"))
       ELSE IF s[1] = 34 THEN
              LET p == ParseText(s) IN
              IF ~(p.ok /\ p.v.t = "str" /\ s[Len(s)] = 34) THEN R(cur, "hard")          \* unquoteBytes fails: return err
              ELSE IF ft.g = "str" THEN R(GS(Utf8Seq(p.v.cp)), "")
              ELSE IF ft.g = "number" THEN (IF IsJsonNumber(Utf8Seq(p.v.cp)) THEN R(GNum(Utf8Seq(p.v.cp)), "") ELSE R(cur, "hard"))
              ELSE R(cur, "saved")
       ELSE IF s[1] # 45 /\ ~DDigit(s[1]) THEN R(cur, "hard")
       ELSE CASE ft.g = "int"   -> IntResult(cur, s)
              [] ft.g = "number" -> R(GNum(s), "")                          \* stored as it is: the content is not checked here
              [] ft.g = "float" -> IF ~IsJsonNumber(s) THEN R(cur, "dc")     \* strconv.ParseFloat on text that is not a JSON number: not modelled
                                   ELSE IF FloatOverflow(s) THEN R(cur, "saved") ELSE R(GFl(s), "")
              [] OTHER          -> R(cur, "hard")       \* a number for a string or bool field: return err

DecQuotedField(ft, cur, j) ==
  IF ft.g # "ptr" THEN DecQuoted(ft, cur, j)
  ELSE IF j.t = "null" THEN R(GNilP(ft.v), "")
  ELSE IF j.t # "str" THEN R(cur, "saved")
  ELSE LET s == Utf8Seq(j.cp) IN
       IF s = <<>> THEN R(cur, "saved")
       ELSE IF s[1] = 110 THEN (IF s = NullText THEN R(GNilP(ft.v), "") ELSE R(cur, "saved"))
       ELSE LET r == DecQuoted(ft.v, IF cur.nil THEN ft.v ELSE cur.v, j) IN R(GP(r.v), r.e)

(***************************************************************************)
(* value / array / object / literalStore                                   *)
(***************************************************************************)
RECURSIVE Dec(_, _, _, _)
Dec(T, cur, j, o) ==        \* o = [un: UseNumber, strict: DisallowUnknownFields]
  CASE T.g = "ptr" ->
         IF j.t = "null" THEN R(GNilP(T.v), "")
         ELSE LET r == Dec(T.v, IF cur.nil THEN T.v ELSE cur.v, j, o) IN R(GP(r.v), r.e)     \* indirect() allocates first
    [] T.g = "nil" ->
         IF j.t = "num" /\ ~o.un /\ FloatOverflow(j.lit) THEN R(cur, "saved") ELSE Iface(j, o.un)
    [] j.t = "null" ->
         IF T.g \in {"slice", "bytes", "map", "tslice", "tmap"} THEN R(T, "") ELSE R(cur, "")
    [] j.t = "bool" -> IF T.g = "bool" THEN R(GB(j.b), "") ELSE R(cur, "saved")
    [] j.t = "num" ->
         CASE T.g = "int"   -> IntResult(cur, j.lit)
           [] T.g = "float" -> IF FloatOverflow(j.lit) THEN R(cur, "saved") ELSE R(GFl(j.lit), "")
           [] T.g = "number" -> R(GNum(j.lit), "")                         \* a json.Number target keeps the literal
           [] OTHER         -> R(cur, "saved")
    [] j.t = "str" ->
         CASE T.g = "str"   -> R(GS(Utf8Seq(j.cp)), "")
           [] T.g = "number" -> IF IsJsonNumber(Utf8Seq(j.cp)) THEN R(GNum(Utf8Seq(j.cp)), "") ELSE R(cur, "hard")   \* "invalid number literal": return err
           [] T.g = "bytes" -> LET b == B64Dec(Utf8Seq(j.cp)) IN IF b.ok THEN R(GBy(b.b), "") ELSE R(cur, "saved")
           [] OTHER         -> R(cur, "saved")
    [] j.t = "arr" ->
         CASE T.g \in {"slice", "tslice"} ->
                \* []interface{} / []T.  Element i is decoded into the element the slice already holds at i (a repeated member
                \* name meets what the first occurrence left; a remembered error leaves that element as it was), into a zero
                \* value beyond.  A hard error returns before the slice is cut to its new length.  Growing a non-empty slice
                \* re-exposes whatever an even earlier, longer decode left in its capacity: not modelled.
                LET z == IF T.g = "slice" THEN GNil ELSE T.z
                    mk(es) == IF T.g = "slice" THEN GSl(es) ELSE GTSl(T.z, es)
                IN
                IF cur.e # <<>> /\ Len(j.e) > Len(cur.e) THEN R(cur, "dc")
                ELSE LET st == FoldLeft(LAMBDA acc, i : IF Stops(acc.e) THEN acc
                                                        ELSE LET r == Dec(z, IF i <= Len(cur.e) THEN cur.e[i] ELSE z, j.e[i], o) IN
                                                             R(Append(acc.v, r.v), Worse(acc.e, r.e)),
                                        R(<<>>, ""), [i \in 1..Len(j.e) |-> i])
                     IN  IF st.e = "hard" THEN R(mk(st.v \o SubSeq(cur.e, Len(st.v) + 1, Len(cur.e))), "hard")
                         ELSE R(mk(st.v), st.e)
           [] T.g = "bytes" -> R(cur, "dc")          \* an array of numbers into []byte: not modelled
           [] OTHER -> R(cur, "saved")
    [] OTHER ->                     \* j is an object
         CASE T.g = "map" ->        \* map[string]interface{}: created when nil, merged into otherwise
                LET st == FoldLeft(LAMBDA acc, mem : IF Stops(acc.e) THEN acc
                                                     ELSE LET r == Dec(GNil, GNil, mem.v, o) IN
                                                          IF Stops(r.e) THEN R(acc.v, r.e)
                                                          ELSE R(SetKey(acc.v, Utf8Seq(mem.k), r.v), Worse(acc.e, r.e)),
                                   R(cur.m, ""), j.m)
                IN  R(GMp(st.v), st.e)
           [] T.g = "tmap" ->       \* every value is decoded into a fresh zero element
                LET st == FoldLeft(LAMBDA acc, mem : IF Stops(acc.e) THEN acc
                                                     ELSE LET r == Dec(T.z, T.z, mem.v, o) IN
                                                          IF Stops(r.e) THEN R(acc.v, r.e)
                                                          ELSE R(SetKey(acc.v, Utf8Seq(mem.k), r.v), Worse(acc.e, r.e)),
                                   R(cur.m, ""), j.m)
                IN  R(GTMp(T.z, st.v), st.e)
           [] T.g = "struct" ->     \* every member whose name matches a field decodes into what that field holds NOW
                LET fl == FlatFields(T.f, <<>>) IN
                FoldLeft(LAMBDA acc, mem :
                           IF Stops(acc.e) THEN acc
                           ELSE LET idx == FieldFor(fl, mem.k) IN
                                IF idx = 0 THEN (IF o.strict THEN R(acc.v, Worse(acc.e, "saved")) ELSE acc)   \* "unknown field": remembered, the value is skipped
                                ELSE LET fd == fl[idx]
                                         ft == GetF(T, fd.path)
                                         r  == IF fd.quoted THEN DecQuotedField(ft, GetF(acc.v, fd.path), mem.v)
                                               ELSE Dec(ft, GetF(acc.v, fd.path), mem.v, o)
                                     IN  R(SetF(acc.v, fd.path, r.v), Worse(acc.e, r.e)),
                         R(cur, ""), j.m)
           [] OTHER -> R(cur, "saved")

\* Unmarshal(text, &x) for x a zero value of type T.  The fork's Unmarshal* functions always decode with UseNumber
\* (decode.go sets d.useNumber = true): a number stored into an interface{} is a json.Number holding the literal.
\* A Decoder does so only after UseNumber(); otherwise it stores float64 like encoding/json.
Opt(un, strict) == [un |-> un, strict |-> strict]
Unmarshal(T, j) == Dec(T, T, j, Opt(TRUE, FALSE))
DecoderDecode(T, j) == Dec(T, T, j, Opt(FALSE, FALSE))
\* a Decoder after DisallowUnknownFields(): a member that matches no field of a struct is an error (remembered)
DecoderStrict(T, j) == Dec(T, T, j, Opt(FALSE, TRUE))

(***************************************************************************)
(* Equality of Go values as an observer sees them: map entries in any      *)
(* order, float64 by numeric value, type descriptions (z, field tags) not  *)
(* looked at.  Used to compare a recorded result with the specification's. *)
(***************************************************************************)
\* a literal of at most 15 significant digits within the normal range of float64 is recovered exactly by printing the
\* float64 it rounds to; other literals are not compared (which float64 a literal rounds to is outside this specification)
FloatComparable(lit) ==
  LET c == NumClass(lit) IN
  c.zero \/ (c.big = <<>> /\ Len(c.d) <= 15 /\ Len(c.d) + c.e > 0 - 290 /\ Len(c.d) + c.e < 290)
RECURSIVE GoSame(_, _)
GoSame(a, b) ==
  /\ a.g = b.g
  /\ CASE a.g = "nil"    -> TRUE
        [] a.g = "bool"   -> a.b = b.b
        [] a.g = "int"    -> a.i = b.i
        [] a.g = "float"  -> (~FloatComparable(a.lit) \/ ~FloatComparable(b.lit)) \/ NumClass(a.lit) = NumClass(b.lit)
        [] a.g = "number" -> a.lit = b.lit
        [] a.g = "str"    -> a.bytes = b.bytes
        [] a.g = "bytes"  -> a.nil = b.nil /\ a.b = b.b
        [] a.g \in {"slice", "tslice"} -> a.nil = b.nil /\ Len(a.e) = Len(b.e) /\ \A i \in 1..Len(a.e) : GoSame(a.e[i], b.e[i])
        [] a.g \in {"map", "tmap"}     -> /\ a.nil = b.nil /\ Len(a.m) = Len(b.m)
                                          /\ \A i \in 1..Len(a.m) : \E k \in 1..Len(b.m) : a.m[i].k = b.m[k].k /\ GoSame(a.m[i].v, b.m[k].v)
        [] a.g = "ptr"    -> a.nil = b.nil /\ (~a.nil => GoSame(a.v, b.v))
        [] OTHER          -> Len(a.f) = Len(b.f) /\ \A i \in 1..Len(a.f) : GoSame(a.f[i].v, b.f[i].v)

(***************************************************************************)
(* the static type is kept: the result of decoding into a T is a T         *)
(***************************************************************************)
RECURSIVE HasType(_, _)
HasType(T, v) ==
  CASE T.g = "nil"    -> TRUE                                   \* an interface holds anything Iface produces
    [] T.g = "ptr"    -> v.g = "ptr" /\ v.v.g = T.v.g /\ (~v.nil => HasType(T.v, v.v))
    [] T.g = "tslice" -> v.g = "tslice" /\ v.z = T.z /\ \A i \in 1..Len(v.e) : HasType(T.z, v.e[i])
    [] T.g = "tmap"   -> v.g = "tmap" /\ v.z = T.z /\ \A i \in 1..Len(v.m) : HasType(T.z, v.m[i].v)
    [] T.g = "struct" -> v.g = "struct" /\ Len(v.f) = Len(T.f)
                         /\ \A i \in 1..Len(T.f) : [v.f[i] EXCEPT !.v = 0] = [T.f[i] EXCEPT !.v = 0] /\ HasType(T.f[i].v, v.f[i].v)
    [] OTHER          -> v.g = T.g
=============================================================================
