----------------------------- MODULE MCScanner -----------------------------
(***************************************************************************)
(* All words up to MaxLen over an alphabet of representative symbols,      *)
(* extending only viable prefixes (the scanner is not in its error state): *)
(* for each word TLC checks that the scanner automaton and the declarative *)
(* grammar agree (language equality, C16), that the transducers keep the   *)
(* value (C17), and prints the word with everything the conformance        *)
(* harness needs to judge the real codec and the public entry points.      *)
(***************************************************************************)
EXTENDS Scanner, JsonText, DecodePatch, Merge7396, Json, TLC

CONSTANTS MaxLen, SigmaId, EmitOn

\* symbols are byte sequences (a multi-byte symbol keeps the words UTF-8)
Structural == { <<123>>, <<125>>, <<91>>, <<93>>, <<58>>, <<44>>, <<34>> }
SigmaFull == Structural \cup
  { <<92>>, <<47>>, <<45>>, <<43>>, <<46>>, <<48>>, <<49>>, <<57>>, <<101>>, <<69>>, <<117>>, <<116>>, <<114>>, <<97>>,
    <<108>>, <<115>>, <<102>>, <<110>>, <<98>>, <<32>>, <<9>>, <<10>>, <<13>>, <<120>>, <<0>>, <<31>>, <<127>>, <<195,169>>,
    <<60>>, <<38>>, <<226,128,168>>, <<226,130,169>> }
SigmaStruct == Structural \cup { <<49>>, <<32>>, <<97>>, <<110>>, <<117>>, <<108>>, <<45>>, <<46>>, <<101>> }
SigmaTiny == Structural \cup { <<49>>, <<32>>, <<97>> }
\* whole tokens as symbols: longer texts (trailing commas, missing colons, nested members) within a short word
SigmaToken == { <<123>>, <<125>>, <<91>>, <<93>>, <<58>>, <<44>>, <<34, 97, 34>>, <<49>>, <<32>>, <<110, 117, 108, 108>>, <<45, 48, 46, 53>> }
\* strings with bytes that are not UTF-8 (the grammar admits any byte >= 0x20 in a string; a decoder reads each bad byte
\* as U+FFFD, which is LONGER than the byte it replaces): a string of six bad bytes, one that ends in a truncated
\* sequence, and one with bad bytes before an escape
Bad6 == <<34, 255, 255, 255, 255, 255, 255, 34>>
BadT == <<34, 97, 226, 130, 34>>
BadE == <<34, 192, 128, 254, 92, 110, 255, 255, 255, 34>>
SigmaBadUtf == { <<123>>, <<125>>, <<91>>, <<93>>, <<58>>, <<44>>, Bad6, BadT, BadE, <<49>> }
\* \u escapes: the opener "\u (always the first symbol), three hex digits, bytes that bit tricks mistake for hex digits
\* (0x10 0x11 0x19 = '0' '1' '9' without bit 5; the neighbours g G @ ` : / of the digit and letter ranges), a second \u, the closing quote
EscOpen == <<34, 92, 117>>
SigmaEscape == { EscOpen, <<34>>, <<92, 117>>, <<48>>, <<70>>, <<100>>, <<103>>, <<71>>, <<64>>, <<96>>, <<58>>, <<47>>, <<16>>, <<17>>, <<25>> }
Sigma == CASE SigmaId = "full" -> SigmaFull [] SigmaId = "escape" -> SigmaEscape [] SigmaId = "badutf" -> SigmaBadUtf [] SigmaId = "struct" -> SigmaStruct [] SigmaId = "token" -> SigmaToken [] OTHER -> SigmaTiny

VARIABLES w, sc,
          k          \* number of symbols taken (MaxLen bounds symbols, not bytes)
svars == <<w, sc, k>>

SInit == w = <<>> /\ sc = S0 /\ k = 0
SNext ==
  /\ sc.step # "Error"
  /\ k < MaxLen
  /\ \E sym \in Sigma :
       /\ (SigmaId = "escape" /\ k = 0) => sym = EscOpen
       /\ k' = k + 1
       /\ w' = w \o sym
       /\ sc' = RunFrom(sc, sym)
SSpec == SInit /\ [][SNext]_svars

(***************************************************************************)
(* Design-level properties.                                                *)
(***************************************************************************)
ScanOK == sc.step \in StepNames /\ Len(sc.stack) <= MaxDepth + 1 /\ sc = RunFrom(S0, w)

\* C16: the automaton accepts exactly the texts of the grammar
LanguageEq == Valid(w) <=> WellFormed(w)

\* once in the error state, always in the error state
ErrorAbsorbs == \A c \in {0, 32, 34, 44, 49, 58, 91, 93, 123, 125} :
                   LET e == [sc EXCEPT !.step = "Error", !.err = TRUE] IN Step(e, c).op = "Error" /\ Step(e, c).s = e

\* C17: the transducers accept exactly the valid texts and keep the value
NoSpaceLeft(out) == Compact(out, FALSE).out = out
TransducersOK ==
  LET v  == Valid(w)
      c0 == Compact(w, FALSE)
      c1 == Compact(w, TRUE)
      in == Indent(w, <<>>, <<32, 32>>)
  IN  /\ c0.ok = v /\ c1.ok = v /\ in.ok = v
      /\ v => /\ ParseText(c0.out) = ParseText(w)
              /\ ParseText(c1.out) = ParseText(w)
              /\ ParseText(in.out).ok /\ ParseText(in.out).v = ParseText(w).v
              /\ NoSpaceLeft(c0.out)
              /\ Compact(in.out, FALSE).out = c0.out
              /\ \A i \in 1..Len(c1.out) : ~IsHtml(c1.out[i]) /\ ~IsLineSep(c1.out, i)
              /\ ParseText(HTMLEscape(w)) = ParseText(w)

(***************************************************************************)
(* Emission (direction A).                                                 *)
(***************************************************************************)
RootKind(v) == v.t
Line(w2, dead) ==
  LET p  == ParseText(w2)
      v  == p.ok
  IN  [fam |-> "word", w |-> w2, valid |-> v, maxdepth |-> MaxDepth,
       val |-> IF v THEN p.v ELSE Null,
       root |-> IF v THEN RootKind(p.v) ELSE "none",
       patchok |-> IF v THEN Accepts(p.v) ELSE FALSE,
       createkind |-> IF v THEN CreateKind(p.v, p.v) ELSE "reject",
       eqone |-> v /\ JEq(p.v, Num(<<49>>)),
       compact |-> IF v THEN Compact(w2, FALSE).out ELSE <<>>,
       compactesc |-> IF v THEN Compact(w2, TRUE).out ELSE <<>>,
       indent |-> IF v THEN Indent(w2, <<>>, <<9>>).out ELSE <<>>,
       indentp |-> IF v THEN Indent(w2, <<62>>, <<32, 32>>).out ELSE <<>>,
       htmlesc |-> HTMLEscape(w2),
       dead |-> dead ]          \* the automaton is in its error state: by ErrorAbsorbs no continuation of w2 is accepted
Emit ==
  IF EmitOn THEN
    /\ (w = <<>> /\ w' = <<123>>) => PrintT(ToJson(Line(<<>>, FALSE)))       \* the empty text, once
    /\ PrintT(ToJson(Line(w', sc'.step = "Error")))
  ELSE TRUE
=============================================================================
