------------------------------ MODULE MCEqual ------------------------------
(***************************************************************************)
(* Pairs and triples of universe values for Equal (C06): the verdict of    *)
(* every pair is printed for the replayer (which spells each value in two  *)
(* ways), and TLC checks on the specification that the relation is an      *)
(* equivalence and that null is equal only to null.                        *)
(***************************************************************************)
EXTENDS Equal, Universe, Json, TLC

CONSTANTS Level, EmitOn, Triples

\* near-misses of a value: members reordered, one member dropped, one element dropped, swapped
Reordered(v) == IF v.t = "obj" /\ Len(v.m) >= 2 THEN Obj([i \in 1..Len(v.m) |-> v.m[Len(v.m) + 1 - i]]) ELSE v
Swapped(v)   == IF v.t = "arr" /\ Len(v.e) >= 2 THEN Arr([i \in 1..Len(v.e) |-> v.e[Len(v.e) + 1 - i]]) ELSE v
Extra == { Arr(<<Null, Null>>), Arr(<<Arr(<<>>), Null>>), Obj(<<Mem(ca, Arr(<<Null>>)), Mem(cb, Null)>>),
           Arr(<<N1, N10>>), Arr(<<N10, N1>>), Str(<<>>), Str(<<65>>), Str(<<60,38>>), Bool(TRUE), Bool(FALSE),
           Obj(<<Mem(<<>>, Null)>>), Obj(<<Mem(ca, Obj(<<Mem(cb, N1), Mem(ca, Null)>>)), Mem(cb, SX)>>),
           Obj(<<Mem(cb, SX), Mem(ca, Obj(<<Mem(ca, Null), Mem(cb, N1)>>))>>) }
EU == U(Level) \cup Extra

VARIABLES a, b, c, phase
evars == <<a, b, c, phase>>
EInit == a \in EU /\ b = Null /\ c = Null /\ phase = 0
ENext ==
  \/ /\ phase = 0 /\ b' \in (EU \cup {Reordered(a), Swapped(a)}) /\ phase' = 1 /\ UNCHANGED <<a, c>>
  \/ /\ phase = 1 /\ Triples /\ EqualVerdict(a, b) /\ c' \in EU /\ phase' = 2 /\ UNCHANGED <<a, b>>
ESpec == EInit /\ [][ENext]_evars

Emit ==
  IF EmitOn /\ phase' = 1 THEN
    PrintT(ToJson([fam |-> "equal", a |-> a, b |-> b', eq |-> EqualVerdict(a, b'), dc |-> EqualDontCare(a, b')]))
  ELSE TRUE

Reflexive  == EqualVerdict(a, a)
Symmetric  == phase >= 1 => (EqualVerdict(a, b) = EqualVerdict(b, a))
Transitive == phase = 2 => (EqualVerdict(b, c) => EqualVerdict(a, c))
NullOnlyNull == phase >= 1 => ((a.t = "null" /\ EqualVerdict(a, b)) => b.t = "null")
OrderBlind == phase >= 1 => EqualVerdict(a, Reordered(a))
=============================================================================
