---------------------------- MODULE DecodePatch ----------------------------
(***************************************************************************)
(* What DecodePatch accepts (C11), stated over the abstract value of the   *)
(* patch document.  Member sequences may contain duplicate names here (the *)
(* property quantifies over duplicated members): as everywhere in Go's     *)
(* JSON decoding, the LAST occurrence of a name is the member.             *)
(***************************************************************************)
EXTENDS JsonValue

LastIdx(m, k) ==
  IF \E i \in 1..Len(m) : m[i].k = k
  THEN CHOOSE i \in 1..Len(m) : m[i].k = k /\ \A j \in (i+1)..Len(m) : m[j].k # k
  ELSE 0
HasM(o, k)  == LastIdx(o.m, k) # 0
MemOf(o, k) == o.m[LastIdx(o.m, k)].v

kOp    == <<111,112>>
kPath  == <<112,97,116,104>>
kFrom  == <<102,114,111,109>>
kValue == <<118,97,108,117,101>>
sAdd     == <<97,100,100>>
sRemove  == <<114,101,109,111,118,101>>
sReplace == <<114,101,112,108,97,99,101>>
sMove    == <<109,111,118,101>>
sCopy    == <<99,111,112,121>>
sTest    == <<116,101,115,116>>
OpNames  == {sAdd, sRemove, sReplace, sMove, sCopy, sTest}

IsStrM(o, k) == HasM(o, k) /\ MemOf(o, k).t = "str"

\* C11, clause by clause
AcceptsOp(o) ==
  /\ o.t = "obj"
  /\ IsStrM(o, kOp) /\ MemOf(o, kOp).cp \in OpNames
  /\ IsStrM(o, kPath)
  /\ MemOf(o, kOp).cp \in {sAdd, sReplace} => HasM(o, kValue)          \* any JSON, including null
  /\ MemOf(o, kOp).cp \in {sMove, sCopy}   => IsStrM(o, kFrom)

Accepts(v) == v.t = "arr" /\ \A i \in 1..Len(v.e) : AcceptsOp(v.e[i])

\* what the accessors return for an accepted operation; absent parts are flagged
Accessors(o) ==
  LET op == MemOf(o, kOp).cp IN
  [ kind    |-> op,
    path    |-> MemOf(o, kPath).cp,
    hasFrom |-> IsStrM(o, kFrom),
    from    |-> IF IsStrM(o, kFrom) THEN MemOf(o, kFrom).cp ELSE <<>>,
    hasVal  |-> HasM(o, kValue),
    value   |-> IF HasM(o, kValue) THEN MemOf(o, kValue) ELSE Null ]
=============================================================================
