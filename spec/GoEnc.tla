------------------------------- MODULE GoEnc -------------------------------
(***************************************************************************)
(* What the embedded codec's Marshal writes for Go VALUES (C17): the       *)
(* documented encoding rules of encoding/json, which the fork must share,  *)
(* as a function from a model of Go values to abstract JSON values; the    *)
(* bytes are then Enc (JsonEnc.tla).                                       *)
(*                                                                         *)
(* Go values:                                                              *)
(*   [g |-> "nil"]                              nil interface              *)
(*   [g |-> "bool", b]   [g |-> "int", i]       bool, int64                *)
(*   [g |-> "float", lit]                       float64, given by the      *)
(*        literal the encoder must print (table GoFloats of the universe)  *)
(*   [g |-> "str", bytes]                       string: ANY bytes          *)
(*   [g |-> "slice", nil, e]                    []interface{}              *)
(*   [g |-> "bytes", nil, b]                    []byte (base64)            *)
(*   [g |-> "map", nil, m: <<[k: bytes, v]>>]   map[string]interface{}     *)
(*   [g |-> "imap", m: <<[k: int, v]>>]         map[int]interface{}        *)
(*   [g |-> "ptr", nil, v]                      *T                         *)
(*   [g |-> "struct", f: <<field>>]             struct, field =            *)
(*        [name, tagged, tname, omitempty, str, dash, anon, v]             *)
(*   [g |-> "iface", v]             a NON-NIL interface{} holding v, where *)
(*        the static type matters (a struct field of type interface{} that *)
(*        holds false is not "empty"; a bare value is a value of its own   *)
(*        static type)                                                     *)
(*   [g |-> "number", lit]          json.Number                            *)
(* values of types with marshalling methods (the fork adds the last two):  *)
(*   [g |-> "marsh", text, fail]    json.Marshaler: MarshalJSON returns    *)
(*        text (or an error); the text is checked and COMPACTED into the   *)
(*        output, HTML-escaped as the switch says                          *)
(*   [g |-> "textm", text]          encoding.TextMarshaler: a JSON string  *)
(*   [g |-> "redir", v]             RedirectMarshaler: the Go value v is   *)
(*        encoded in its place                                             *)
(*   [g |-> "trust", b]             TrustMarshaler: writes b into the      *)
(*        output buffer itself: not checked, not compacted, not escaped    *)
(***************************************************************************)
EXTENDS JsonEnc, Scanner

\* bytes of a Go string -> code points; every byte that is not part of a valid UTF-8 sequence becomes the marker -1
\* (read back as U+FFFD)
GoCont(c) == c >= 128 /\ c <= 191
RECURSIVE GoUtf8(_)
GoUtf8(b) ==
  IF b = <<>> THEN <<>>
  ELSE LET c0 == b[1]
           c1 == IF Len(b) >= 2 THEN b[2] ELSE -1
           c2 == IF Len(b) >= 3 THEN b[3] ELSE -1
           c3 == IF Len(b) >= 4 THEN b[4] ELSE -1
           bad == <<-1>> \o GoUtf8(Tail(b))          \* -1: an invalid byte, spelled \ufffd by the encoder (JsonEnc!EncCp)
       IN  IF c0 < 128 THEN <<c0>> \o GoUtf8(Tail(b))
           ELSE IF c0 >= 194 /\ c0 <= 223 /\ GoCont(c1) THEN <<(c0 - 192) * 64 + (c1 - 128)>> \o GoUtf8(SubSeq(b, 3, Len(b)))
           ELSE IF c0 >= 224 /\ c0 <= 239 /\ GoCont(c1) /\ GoCont(c2)
                   /\ LET cp == (c0 - 224) * 4096 + (c1 - 128) * 64 + (c2 - 128) IN cp >= 2048 /\ ~(cp >= 55296 /\ cp <= 57343)
                THEN <<(c0 - 224) * 4096 + (c1 - 128) * 64 + (c2 - 128)>> \o GoUtf8(SubSeq(b, 4, Len(b)))
           ELSE IF c0 >= 240 /\ c0 <= 244 /\ GoCont(c1) /\ GoCont(c2) /\ GoCont(c3)
                   /\ LET cp == (c0 - 240) * 262144 + (c1 - 128) * 4096 + (c2 - 128) * 64 + (c3 - 128) IN cp >= 65536 /\ cp <= 1114111
                THEN <<(c0 - 240) * 262144 + (c1 - 128) * 4096 + (c2 - 128) * 64 + (c3 - 128)>> \o GoUtf8(SubSeq(b, 5, Len(b)))
           ELSE bad

\* decimal spelling of an integer
RECURSIVE NatDigits(_)
NatDigits(n) == IF n < 10 THEN <<48 + n>> ELSE NatDigits(n \div 10) \o <<48 + (n % 10)>>
IntLit(i) == IF i < 0 THEN <<45>> \o NatDigits(0 - i) ELSE NatDigits(i)

\* base64 (standard alphabet, padded) of a byte sequence
B64(n) == IF n < 26 THEN 65 + n ELSE IF n < 52 THEN 97 + (n - 26) ELSE IF n < 62 THEN 48 + (n - 52) ELSE IF n = 62 THEN 43 ELSE 47
RECURSIVE Base64(_)
Base64(b) ==
  IF b = <<>> THEN <<>>
  ELSE IF Len(b) = 1 THEN <<B64(b[1] \div 4), B64((b[1] % 4) * 16), 61, 61>>
  ELSE IF Len(b) = 2 THEN <<B64(b[1] \div 4), B64((b[1] % 4) * 16 + b[2] \div 16), B64((b[2] % 16) * 4), 61>>
  ELSE <<B64(b[1] \div 4), B64((b[1] % 4) * 16 + b[2] \div 16), B64((b[2] % 16) * 4 + b[3] \div 64), B64(b[3] % 64)>>
       \o Base64(SubSeq(b, 4, Len(b)))

IsEmptyGo(v) ==
  CASE v.g = "nil"   -> TRUE
    [] v.g = "bool"  -> ~v.b
    [] v.g = "int"   -> v.i = 0
    [] v.g = "float" -> v.lit = <<48>> \/ v.lit = <<45, 48>>
    [] v.g = "str"   -> v.bytes = <<>>
    [] v.g = "slice" -> v.e = <<>>
    [] v.g = "bytes" -> v.b = <<>>
    [] v.g = "map"   -> v.m = <<>>
    [] v.g = "imap"  -> v.m = <<>>
    [] v.g = "tslice" -> v.e = <<>>
    [] v.g = "tmap"  -> v.m = <<>>
    [] v.g = "number" -> v.lit = <<>>          \* a string type: empty when the string is
    [] v.g = "ptr"   -> v.nil
    [] OTHER         -> FALSE               \* a struct is never empty, nor is a non-nil interface (whatever it holds)

Exported(name) == name # <<>> /\ name[1] >= 65 /\ name[1] <= 90

RECURSIVE GoToJson(_, _), FieldMembers(_, _, _), Quoted(_, _)
\* the `string` option: the JSON encoding of a bool / number / string, as a JSON string
Quoted(v, esc) ==
  CASE v.g = "bool"  -> Str(IF v.b THEN <<116,114,117,101>> ELSE <<102,97,108,115,101>>)
    [] v.g = "int"   -> Str(IntLit(v.i))
    [] v.g = "float" -> Str(v.lit)
    [] v.g = "number" -> Str(IF v.lit = <<>> THEN <<48>> ELSE v.lit)    \* a Number is a string type: quoted once
    [] v.g = "str"   -> Str(GoUtf8(Enc(Str(GoUtf8(v.bytes)), esc)))   \* the string's JSON text (escaped as the switch says) becomes the content
    [] v.g = "ptr" /\ v.v.g \in {"bool", "int", "float", "str", "number"}        \* a pointer to one of these: null, or the pointee quoted
                     -> IF v.nil THEN Null ELSE Quoted(v.v, esc)
    [] OTHER         -> GoToJson(v, esc)                                 \* the option is ignored for other kinds

\* members contributed by the fields f[i..] of a struct, in declaration order
FieldMembers(f, i, esc) ==
  IF i > Len(f) THEN <<>>
  ELSE LET x == f[i]
           rest == FieldMembers(f, i + 1, esc)
       IN  IF x.dash THEN rest                                                         \* `json:"-"`
           ELSE IF x.anon /\ x.v.g = "struct" /\ ~x.tagged THEN FieldMembers(x.v.f, 1, esc) \o rest   \* embedded struct: fields promoted
           ELSE IF ~Exported(x.name) THEN rest                                          \* unexported
           ELSE IF x.omitempty /\ IsEmptyGo(x.v) THEN rest
           ELSE <<Mem(GoUtf8(IF x.tname # <<>> THEN x.tname ELSE x.name),
                      IF x.str THEN Quoted(x.v, esc) ELSE GoToJson(x.v, esc))>> \o rest

GoToJson(v, esc) ==
  CASE v.g = "nil"   -> Null
    [] v.g = "bool"  -> Bool(v.b)
    [] v.g = "int"   -> Num(IntLit(v.i))
    [] v.g = "float" -> Num(v.lit)
    [] v.g = "str"   -> Str(GoUtf8(v.bytes))
    [] v.g = "slice" -> IF v.nil THEN Null ELSE Arr([i \in 1..Len(v.e) |-> GoToJson(v.e[i], esc)])
    [] v.g = "bytes" -> IF v.nil THEN Null ELSE Str(Base64(v.b))
    [] v.g = "map"   -> IF v.nil THEN Null
                        ELSE SortTop(Obj([i \in 1..Len(v.m) |-> Mem(GoUtf8(v.m[i].k), GoToJson(v.m[i].v, esc))]))
    [] v.g = "imap"  -> SortTop(Obj([i \in 1..Len(v.m) |-> Mem(IntLit(v.m[i].k), GoToJson(v.m[i].v, esc))]))
    [] v.g = "ptr"   -> IF v.nil THEN Null ELSE GoToJson(v.v, esc)
    [] v.g = "tslice" -> IF v.nil THEN Null ELSE Arr([i \in 1..Len(v.e) |-> GoToJson(v.e[i], esc)])
    [] v.g = "tmap"  -> IF v.nil THEN Null
                        ELSE SortTop(Obj([i \in 1..Len(v.m) |-> Mem(GoUtf8(v.m[i].k), GoToJson(v.m[i].v, esc))]))
    [] v.g = "number" -> Num(IF v.lit = <<>> THEN <<48>> ELSE v.lit)    \* the empty Number is written as 0
    [] v.g = "iface" -> GoToJson(v.v, esc)
    [] v.g = "marsh" -> [t |-> "raw", b |-> Compact(v.text, esc).out]
    [] v.g = "textm" -> Str(GoUtf8(v.text))
    [] v.g = "redir" -> GoToJson(v.v, esc)
    [] v.g = "trust" -> [t |-> "raw", b |-> v.b]
    [] OTHER         -> Obj(FieldMembers(v.f, 1, esc))

GoMarshal(v, esc) == Enc(GoToJson(v, esc), esc)

\* A RedirectMarshaler whose replacement value cannot be encoded: redirMarshalerEncoder drops the error of the nested
\* encode, so Marshal succeeds with whatever was written up to there.  No listed property speaks about this case (the
\* library's own RedirectMarshalers only return values that encode): the result is left unspecified here.
RECURSIVE GoFails(_)
GoFailsIn(v) == GoFails(v)
RECURSIVE GoUnspecified(_)
GoUnspecified(v) ==
  CASE v.g = "redir"  -> GoFailsIn(v.v) \/ GoUnspecified(v.v)
    [] v.g = "iface"  -> GoUnspecified(v.v)
    [] v.g \in {"slice", "tslice"} -> \E i \in 1..Len(v.e) : GoUnspecified(v.e[i])
    [] v.g \in {"map", "imap", "tmap"} -> \E i \in 1..Len(v.m) : GoUnspecified(v.m[i].v)
    [] v.g = "ptr"    -> ~v.nil /\ GoUnspecified(v.v)
    [] v.g = "struct" -> \E i \in 1..Len(v.f) : GoUnspecified(v.f[i].v)
    [] OTHER          -> FALSE

\* Marshal returns an error (and no bytes): a MarshalJSON that fails or returns ill-formed text, anywhere it is reached
GoFails(v) ==
  CASE v.g = "marsh"  -> v.fail \/ ~Valid(v.text)
    [] v.g = "redir"  -> FALSE                \* see GoUnspecified
    [] v.g = "iface"  -> GoFails(v.v)
    [] v.g \in {"slice", "tslice"} -> \E i \in 1..Len(v.e) : GoFails(v.e[i])
    [] v.g \in {"map", "imap", "tmap"} -> \E i \in 1..Len(v.m) : GoFails(v.m[i].v)
    [] v.g = "ptr"    -> ~v.nil /\ GoFails(v.v)
    [] v.g = "struct" -> \E i \in 1..Len(v.f) :
                           LET x == v.f[i] IN
                           /\ ~x.dash
                           /\ Exported(x.name) \/ (x.anon /\ x.v.g = "struct" /\ ~x.tagged)
                           /\ ~(x.omitempty /\ IsEmptyGo(x.v))
                           /\ GoFails(x.v)
    [] OTHER          -> FALSE

\* the value a reader sees: the marker -1 reads back as U+FFFD
RECURSIVE AsRead(_)
AsRead(j) ==
  CASE j.t = "str" -> Str([i \in 1..Len(j.cp) |-> IF j.cp[i] = -1 THEN 65533 ELSE j.cp[i]])
    [] j.t = "arr" -> Arr([i \in 1..Len(j.e) |-> AsRead(j.e[i])])
    [] j.t = "obj" -> Obj([i \in 1..Len(j.m) |-> Mem([k \in 1..Len(j.m[i].k) |-> IF j.m[i].k[k] = -1 THEN 65533 ELSE j.m[i].k[k]], AsRead(j.m[i].v))])
    [] OTHER -> j
=============================================================================
