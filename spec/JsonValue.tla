----------------------------- MODULE JsonValue -----------------------------
(***************************************************************************)
(* Abstract JSON values as the json-patch API promises to treat them.      *)
(*                                                                         *)
(* A value is a tagged record.  Member order, number literals and string   *)
(* contents (decoded code points) are part of the value, insignificant     *)
(* white space and the spelling of escapes are not:                        *)
(*                                                                         *)
(*   [t |-> "null"]                                                        *)
(*   [t |-> "bool", b |-> TRUE]                                            *)
(*   [t |-> "num",  lit |-> <<49,46,48>>]                                  *)
(*        lit: the literal text as code points (compared as text);         *)
(*        NumClass(lit) is a canonical form of the numeric value, used     *)
(*        ONLY to recognise the don't-care "numerically equal, spelled     *)
(*        differently"                                                     *)
(*   [t |-> "str",  cp |-> <<97,47,98>>]   decoded code points             *)
(*   [t |-> "arr",  e |-> <<v1, ...>>]                                     *)
(*   [t |-> "obj",  m |-> << [k |-> cps, v |-> v1], ... >>]  ordered       *)
(*                                                                         *)
(* Every comparison looks at .t first so TLC never compares values of      *)
(* different TLA+ types.  Strings of content are sequences of integers so  *)
(* that the spec can look into them (TLC strings are atomic).              *)
(***************************************************************************)
EXTENDS Integers, Sequences, FiniteSets

Null      == [t |-> "null"]
Bool(b)   == [t |-> "bool", b |-> b]
(***************************************************************************)
(* NumClass(lit): sign, significant digits without leading/trailing zeros  *)
(* and decimal exponent of a number literal (RFC 8259 number syntax).      *)
(***************************************************************************)
NcIsDigit(c) == c >= 48 /\ c <= 57
RECURSIVE NcVal(_)
NcVal(t) == IF t = <<>> THEN 0 ELSE NcVal(SubSeq(t, 1, Len(t)-1)) * 10 + (t[Len(t)] - 48)
NcFirst(s, P(_)) == IF \E i \in 1..Len(s) : P(s[i]) THEN CHOOSE i \in 1..Len(s) : P(s[i]) /\ \A j \in 1..(i-1) : ~P(s[j]) ELSE 0
RECURSIVE NcStripLead(_)
NcStripLead(d) == IF d # <<>> /\ d[1] = 48 THEN NcStripLead(Tail(d)) ELSE d
RECURSIVE NcStripTrail(_, _)
NcStripTrail(d, e) == IF d # <<>> /\ d[Len(d)] = 48 THEN NcStripTrail(SubSeq(d, 1, Len(d)-1), e + 1) ELSE [d |-> d, e |-> e]
NumClass(lit) ==
  LET neg  == lit # <<>> /\ lit[1] = 45
      s    == IF neg THEN Tail(lit) ELSE lit
      ei   == NcFirst(s, LAMBDA c : c = 101 \/ c = 69)
      mant == IF ei = 0 THEN s ELSE SubSeq(s, 1, ei - 1)
      ex   == IF ei = 0 THEN <<>> ELSE SubSeq(s, ei + 1, Len(s))
      exNeg == ex # <<>> /\ ex[1] = 45
      exDig == NcStripLead(IF ex # <<>> /\ (ex[1] = 45 \/ ex[1] = 43) THEN Tail(ex) ELSE ex)
      di   == NcFirst(mant, LAMBDA c : c = 46)
      ip   == IF di = 0 THEN mant ELSE SubSeq(mant, 1, di - 1)
      fp   == IF di = 0 THEN <<>> ELSE SubSeq(mant, di + 1, Len(mant))
      big  == Len(exDig) > 8
      e0   == IF big THEN 0 ELSE (IF exNeg THEN 0 - NcVal(exDig) ELSE NcVal(exDig)) - Len(fp)
      st   == NcStripTrail(NcStripLead(ip \o fp), e0)
  IN  IF st.d = <<>> THEN [zero |-> TRUE, neg |-> FALSE, d |-> <<>>, e |-> 0, big |-> <<>>]
      ELSE [zero |-> FALSE, neg |-> neg, d |-> st.d, e |-> st.e, big |-> IF big THEN ex ELSE <<>>]

Num(l)    == [t |-> "num", lit |-> l]
Str(cp)   == [t |-> "str", cp |-> cp]
Arr(e)    == [t |-> "arr", e |-> e]
Obj(m)    == [t |-> "obj", m |-> m]
Mem(k, v) == [k |-> k, v |-> v]

IsNull(v)      == v.t = "null"
IsObj(v)       == v.t = "obj"
IsArr(v)       == v.t = "arr"
IsContainer(v) == v.t = "obj" \/ v.t = "arr"

\* position (1-based) of member k in member sequence m, 0 when absent
MemIdx(m, k) ==
  IF \E i \in 1..Len(m) : m[i].k = k
  THEN CHOOSE i \in 1..Len(m) : m[i].k = k /\ \A j \in 1..(i-1) : m[j].k # k
  ELSE 0

Keys(v) == [i \in 1..Len(v.m) |-> v.m[i].k]

RemoveAt(s, i) == SubSeq(s, 1, i-1) \o SubSeq(s, i+1, Len(s))
InsertAtPos(s, i, x) == SubSeq(s, 1, i-1) \o <<x>> \o SubSeq(s, i, Len(s))   \* x becomes s'[i]
ReplaceAtPos(s, i, x) == [s EXCEPT ![i] = x]

(***************************************************************************)
(* Structural equality of RFC 6902 section 4.6 / RFC 8259: object members  *)
(* as a set, array elements in order, numbers by literal text, strings by  *)
(* code points.  Assumes no duplicate member names (outside the domain).   *)
(***************************************************************************)
RECURSIVE JEq(_, _)
JEq(a, b) ==
  IF a.t # b.t THEN FALSE
  ELSE CASE a.t = "null" -> TRUE
         [] a.t = "bool" -> a.b = b.b
         [] a.t = "num"  -> a.lit = b.lit
         [] a.t = "str"  -> a.cp = b.cp
         [] a.t = "arr"  -> /\ Len(a.e) = Len(b.e)
                            /\ \A i \in 1..Len(a.e) : JEq(a.e[i], b.e[i])
         [] a.t = "obj"  -> /\ Len(a.m) = Len(b.m)
                            /\ \A i \in 1..Len(a.m) :
                                 LET j == MemIdx(b.m, a.m[i].k) IN
                                 j # 0 /\ JEq(a.m[i].v, b.m[j].v)

\* the same with numbers compared by numeric value: only used to recognise don't-cares
RECURSIVE JEqNumeric(_, _)
JEqNumeric(a, b) ==
  IF a.t # b.t THEN FALSE
  ELSE CASE a.t = "null" -> TRUE
         [] a.t = "bool" -> a.b = b.b
         [] a.t = "num"  -> NumClass(a.lit) = NumClass(b.lit)
         [] a.t = "str"  -> a.cp = b.cp
         [] a.t = "arr"  -> /\ Len(a.e) = Len(b.e)
                            /\ \A i \in 1..Len(a.e) : JEqNumeric(a.e[i], b.e[i])
         [] a.t = "obj"  -> /\ Len(a.m) = Len(b.m)
                            /\ \A i \in 1..Len(a.m) :
                                 LET j == MemIdx(b.m, a.m[i].k) IN
                                 j # 0 /\ JEqNumeric(a.m[i].v, b.m[j].v)

\* member order significant as well (C05): plain record equality does that,
\* because lit/cp/k are compared as text / sequences.
OrdEq(a, b) == a = b

RECURSIVE NoDupKeys(_)
NoDupKeys(v) ==
  CASE v.t = "obj" -> /\ \A i, j \in 1..Len(v.m) : v.m[i].k = v.m[j].k => i = j
                      /\ \A i \in 1..Len(v.m) : NoDupKeys(v.m[i].v)
    [] v.t = "arr" -> \A i \in 1..Len(v.e) : NoDupKeys(v.e[i])
    [] OTHER -> TRUE

RECURSIVE HasNullMember(_)      \* some object (at any depth) has a null-valued member
HasNullMember(v) ==
  CASE v.t = "obj" -> \E i \in 1..Len(v.m) : v.m[i].v.t = "null" \/ HasNullMember(v.m[i].v)
    [] v.t = "arr" -> \E i \in 1..Len(v.e) : HasNullMember(v.e[i])
    [] OTHER -> FALSE

RECURSIVE Size(_)               \* number of nodes
Size(v) ==
  CASE v.t = "obj" -> 1 + LET f[i \in 0..Len(v.m)] == IF i = 0 THEN 0 ELSE f[i-1] + Size(v.m[i].v) IN f[Len(v.m)]
    [] v.t = "arr" -> 1 + LET f[i \in 0..Len(v.e)] == IF i = 0 THEN 0 ELSE f[i-1] + Size(v.e[i]) IN f[Len(v.e)]
    [] OTHER -> 1

RECURSIVE Depth(_)
Depth(v) ==
  CASE v.t = "obj" -> 1 + LET f[i \in 0..Len(v.m)] == IF i = 0 THEN 0 ELSE
                                   LET d == Depth(v.m[i].v) IN IF d > f[i-1] THEN d ELSE f[i-1] IN f[Len(v.m)]
    [] v.t = "arr" -> 1 + LET f[i \in 0..Len(v.e)] == IF i = 0 THEN 0 ELSE
                                   LET d == Depth(v.e[i]) IN IF d > f[i-1] THEN d ELSE f[i-1] IN f[Len(v.e)]
    [] OTHER -> 0

(***************************************************************************)
(* Decimal spelling of a natural number as code points (array index        *)
(* tokens), and the canonical token path of every node of a value.         *)
(***************************************************************************)
RECURSIVE NatCps(_)
NatCps(n) == IF n < 10 THEN <<48 + n>> ELSE NatCps(n \div 10) \o <<48 + (n % 10)>>

\* all token paths (sequences of decoded reference tokens) that resolve in v
RECURSIVE Paths(_)
Paths(v) ==
  {<<>>} \cup
  CASE v.t = "obj" -> UNION { { <<v.m[i].k>> \o p : p \in Paths(v.m[i].v) } : i \in 1..Len(v.m) }
    [] v.t = "arr" -> UNION { { <<NatCps(i-1)>> \o p : p \in Paths(v.e[i]) } : i \in 1..Len(v.e) }
    [] OTHER -> {}

\* the value at a canonical token path (must be in Paths(v))
RECURSIVE At(_, _)
At(v, p) ==
  IF p = <<>> THEN v
  ELSE IF v.t = "obj" THEN At(v.m[MemIdx(v.m, p[1])].v, Tail(p))
  ELSE At(v.e[(CHOOSE i \in 1..Len(v.e) : NatCps(i-1) = p[1])], Tail(p))

IsPrefixOf(p, q) == Len(p) <= Len(q) /\ SubSeq(q, 1, Len(p)) = p
=============================================================================
