----------------------------- MODULE IndexRule -----------------------------
(***************************************************************************)
(* The library's array-index dialect as pure integer arithmetic, in a      *)
(* module of its own so that it can be checked for ALL integers by         *)
(* Apalache (IndexLemmas.tla) as well as inside the bounded TLC models.     *)
(***************************************************************************)
EXTENDS Integers

(***************************************************************************)
(* The dialect's index rule.  n = current length.  Result is a 0-based     *)
(* position, or -1 for "no such position".                                 *)
(*   get/replace/remove:  0..n-1;  negative i means n+i when enabled       *)
(*   add (insert before): 0..n;    negative i means n+1+i when enabled,    *)
(*                        so that -1 appends (pinned by the test suite)    *)
(***************************************************************************)
NormIndex(i, n, neg, forAdd) ==
  LET m == IF forAdd THEN n + 1 ELSE n IN
  IF i >= m THEN -1
  ELSE IF i >= 0 THEN i
  ELSE IF ~neg \/ i < 0 - m THEN -1
  ELSE i + m

\* lemma checked by TLC over a range and by Apalache for all integers (IndexLemmas.tla)
NormIndexInRange(i, n, neg, forAdd) ==
  LET r == NormIndex(i, n, neg, forAdd) IN
  r = -1 \/ (r >= 0 /\ r < (IF forAdd THEN n + 1 ELSE n))
=============================================================================
