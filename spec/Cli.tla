-------------------------------- MODULE Cli --------------------------------
(***************************************************************************)
(* The json-patch command (v5/cmd/json-patch/main.go) as a state machine   *)
(* (C20):                                                                  *)
(*   ParseFlags -> (ReadFile_i ; Decode_i)* -> ReadStdin -> Apply_i* ->     *)
(*   Print | Fatal                                                         *)
(* A scenario is a list of -p arguments (each a kind of file) and a        *)
(* document on standard input.  Patches are applied with Patch6902's       *)
(* semantics under the default options.                                    *)
(***************************************************************************)
EXTENDS PatchOps, Json

CONSTANTS MaxFiles, EmitOn

cx == <<120>>   cz == <<122>>
N0 == Num(<<48>>)  N1 == Num(<<49>>)  N2 == Num(<<50>>)
PX == <<47, 120>>           \* "/x"
PZ == <<47, 122, 122>>      \* "/zz"

\* kinds of file a -p argument can name
FileKinds == { "addx", "replx", "testx", "rmzz", "empty", "addpct", "push", "rma", "notpatch", "malformed", "missing", "dir" }
IsPatchFile(k) == k \in { "addx", "replx", "testx", "rmzz", "empty", "addpct", "push", "rma" }
OpsOf(k) ==
  CASE k = "addx"  -> << [op |-> "add", path |-> PX, value |-> N1] >>
    [] k = "replx" -> << [op |-> "replace", path |-> PX, value |-> N2] >>          \* does not commute with addx
    [] k = "testx" -> << [op |-> "test", path |-> PX, value |-> N1] >>             \* passes only after addx
    [] k = "addpct" -> << [op |-> "add", path |-> <<47, 112>>, value |-> Str(<<49, 48, 48, 37, 32, 115, 37, 100>>)] >>   \* "100% s%d": output is data, not a format
    [] k = "rma"   -> << [op |-> "remove", path |-> <<47, 97>>] >>                    \* remove /a (twice: needs the re-parse between files)
    [] k = "push"  -> << [op |-> "add", path |-> <<47, 45>>, value |-> N2] >>      \* appends to an array root: NOT idempotent (the same file twice)
    [] k = "rmzz"  -> << [op |-> "add", path |-> <<47, 107>>, value |-> N1], [op |-> "remove", path |-> PZ] >>  \* fails in its 2nd operation
    [] OTHER       -> << >>

\* documents outside the domain of the operation semantics (a repeated member name, a null root, a text that is not JSON):
\* C20 defines the expected output by the library itself ("the document that applying those patches one after another with
\* the library produces"), so for these the replayer compares the command with the in-process fold only
LibDefinedDocs == { Obj(<<Mem(<<97>>, Obj(<<Mem(<<98>>, N1)>>)), Mem(<<99>>, N2), Mem(<<97>>, Obj(<<Mem(<<98>>, N2)>>))>>), Null, [t |-> "malformed"] }
LibDefined(d) == d \in LibDefinedDocs
StdinDocs == { Obj(<<>>), Obj(<<Mem(cx, N0)>>), Arr(<<N1>>), Obj(<<Mem(<<37, 118>>, Str(<<37, 37, 32, 37, 115>>))>>) }
             \cup LibDefinedDocs
DefaultOpts == [neg |-> TRUE, limit |-> 0, allow |-> FALSE, ensure |-> FALSE, esc |-> TRUE]

VARIABLES args,     \* the -p arguments in command-line order
          stdin,    \* the document on standard input
          phase,    \* "flags" | "load" | "stdin" | "apply" | "done"
          i,        \* index of the file being loaded / the patch being applied
          cur,      \* the document so far
          stdout,   \* [some |-> BOOLEAN, v |-> document]
          exit      \* -1 while running, 0, 1
cvars == <<args, stdin, phase, i, cur, stdout, exit>>

NoOut == [some |-> FALSE, v |-> Null]

RECURSIVE SeqsUpTo(_, _)
SeqsUpTo(S, n) == IF n = 0 THEN { <<>> } ELSE SeqsUpTo(S, n - 1) \cup { Append(s, x) : s \in SeqsUpTo(S, n - 1), x \in S }

CInit == /\ args \in SeqsUpTo(FileKinds, MaxFiles) /\ stdin \in StdinDocs
         /\ phase = "flags" /\ i = 1 /\ cur = Null /\ stdout = NoOut /\ exit = -1

Fatal == phase' = "done" /\ exit' = 1 /\ UNCHANGED <<args, stdin, i, cur, stdout>>

\* go-flags converts every -p value when the command line is parsed: the path must exist and be a file
ParseFlags ==
  /\ phase = "flags"
  /\ IF \E j \in 1..Len(args) : args[j] \in {"missing", "dir"} THEN Fatal
     ELSE phase' = "load" /\ UNCHANGED <<args, stdin, i, cur, stdout, exit>>

\* read and decode the files in order; the first one that is not a patch is fatal
LoadFile ==
  /\ phase = "load"
  /\ IF i > Len(args) THEN phase' = "stdin" /\ i' = 1 /\ UNCHANGED <<args, stdin, cur, stdout, exit>>
     ELSE IF IsPatchFile(args[i]) THEN i' = i + 1 /\ UNCHANGED <<args, stdin, phase, cur, stdout, exit>>
     ELSE Fatal

ReadStdin ==
  /\ phase = "stdin"
  /\ IF LibDefined(stdin)
     THEN phase' = "done" /\ exit' = -2 /\ UNCHANGED <<args, stdin, i, cur, stdout>>     \* -2: outcome defined by the library
     ELSE cur' = stdin /\ phase' = "apply" /\ UNCHANGED <<args, stdin, i, stdout, exit>>

\* apply the patches in order; the first one that fails is fatal; then print
ApplyNext ==
  /\ phase = "apply"
  /\ IF i > Len(args) THEN phase' = "done" /\ exit' = 0 /\ stdout' = [some |-> TRUE, v |-> cur] /\ UNCHANGED <<args, stdin, i, cur>>
     ELSE LET r == RunAll(cur, OpsOf(args[i]), DefaultOpts, [lo |-> 0, hi |-> 0], 1) IN
          IF r.k = "ok" THEN cur' = r.v /\ i' = i + 1 /\ UNCHANGED <<args, stdin, phase, stdout, exit>>
          ELSE Fatal

CNext == ParseFlags \/ LoadFile \/ ReadStdin \/ ApplyNext
CSpec == CInit /\ [][CNext]_cvars

(***************************************************************************)
(* C20.                                                                    *)
(***************************************************************************)
RECURSIVE FoldApply(_, _, _)
FoldApply(d, as, j) ==      \* the patches one after another with the library; [ok, v]
  IF j > Len(as) THEN [ok |-> TRUE, v |-> d]
  ELSE LET r == RunAll(d, OpsOf(as[j]), DefaultOpts, [lo |-> 0, hi |-> 0], 1) IN
       IF r.k = "ok" THEN FoldApply(r.v, as, j + 1) ELSE [ok |-> FALSE, v |-> Null]

NoPartialOutput == exit # 0 => stdout = NoOut
OutputIsFold ==
  (phase = "done" /\ exit = 0) =>
     /\ \A j \in 1..Len(args) : IsPatchFile(args[j])
     /\ LET f == FoldApply(stdin, args, 1) IN f.ok /\ stdout = [some |-> TRUE, v |-> f.v]
FailsCleanly ==
  (phase = "done" /\ exit = 1) =>
     \/ \E j \in 1..Len(args) : ~IsPatchFile(args[j])
     \/ ~FoldApply(stdin, args, 1).ok
\* order matters: the universe contains two patches that do not commute
OrderWitness ==
  LET a == FoldApply(Obj(<<Mem(cx, N0)>>), <<"addx", "replx">>, 1)
      b == FoldApply(Obj(<<Mem(cx, N0)>>), <<"replx", "addx">>, 1)
  IN  a.ok /\ b.ok /\ a.v # b.v

Emit ==
  IF EmitOn /\ phase' = "done" THEN
    PrintT(ToJson([fam |-> "cli", files |-> args, stdin |-> stdin, exit |-> exit',
                   out |-> stdout'.v, some |-> stdout'.some, libdefined |-> (exit' = -2),
                   patches |-> [j \in 1..Len(args) |-> OpsOf(args[j])]]))
  ELSE TRUE
=============================================================================
