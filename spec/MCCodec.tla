------------------------------ MODULE MCCodec ------------------------------
(***************************************************************************)
(* The encoder's spelling Enc (JsonEnc.tla) against the grammar (Parse o   *)
(* Enc = identity) and, through the replayer, against the embedded codec:  *)
(* decoding Enc(v) into Go dynamic values and encoding them again must     *)
(* give exactly Enc(SortKeys(v), esc) - maps are written with sorted keys  *)
(* - for both settings of the HTML-escape switch (C17).                    *)
(***************************************************************************)
EXTENDS JsonEnc, JsonText, Scanner, Universe, Json, TLC

CONSTANTS Level, EmitOn

Awkward == { Str(<<60,62,38>>), Str(<<8232, 8233>>), Str(<<34, 92, 47>>), Str(<<1, 8, 9, 10, 12, 13, 31, 127>>),
             Str(<<233, 8364, 128512>>), Str(<<>>), Str(<<65533>>), Str(<<8361, 8744, 8232>>),
             Obj(<<Mem(<<60>>, Str(<<38>>)), Mem(<<34>>, Null), Mem(<<>>, N1)>>),
             Obj(<<Mem(cb, N1), Mem(ca, Obj(<<Mem(cb, N1), Mem(ca, N10)>>)), Mem(<<65>>, Arr(<<>>))>>),
             Num(<<45,48>>), Num(<<49,101,52,48,48>>), Num(<<49,69,43,50>>), Num(<<48,46,49,48>>), Num(<<45,49,46,53,101,45,55>>),
             Bool(TRUE), Bool(FALSE), Arr(<<Arr(<<Arr(<<>>)>>), Obj(<<>>)>>) }
CU == U(Level) \cup Awkward

VARIABLES v, done
cvars == <<v, done>>
CInit == v \in CU /\ done = FALSE
CNext == ~done /\ done' = TRUE /\ UNCHANGED v
CSpec == CInit /\ [][CNext]_cvars

\* Parse o Enc = identity, for both escape settings; the escaped form has no raw < > & U+2028/9
ParseEnc ==
  \A esc \in BOOLEAN :
     LET b == Enc(v, esc)  p == ParseText(b) IN
     /\ p.ok /\ p.v = v
     /\ Len(b) = EncLen(v, esc)
     /\ esc => \A i \in 1..Len(b) : b[i] # 60 /\ b[i] # 62 /\ b[i] # 38
                                     /\ ~(b[i] = 226 /\ i + 2 <= Len(b) /\ b[i+1] = 128 /\ (b[i+2] = 168 \/ b[i+2] = 169))
SortedIsEqual == JEq(SortKeys(v), v)
\* the transducers of Scanner.tla on the encoder's output: already compact; HTML-escaping the raw
\* spelling gives the escaped spelling; indenting and compacting again is the identity
TransducersOnEnc ==
  LET b == Enc(v, FALSE) IN
  /\ Valid(b) /\ Compact(b, FALSE) = [ok |-> TRUE, out |-> b]
  /\ Compact(b, TRUE).out = Enc(v, TRUE) /\ HTMLEscape(b) = Enc(v, TRUE)
  /\ Compact(Indent(b, <<>>, <<32>>).out, FALSE).out = b

(***************************************************************************)
(* The token stream of Decoder.Token for a text: delimiters, member names  *)
(* and scalar values in document order (stream.go).                        *)
(***************************************************************************)
TDelim(c) == [k |-> "delim", c |-> c, cp |-> <<>>, b |-> FALSE]
RECURSIVE Tokens(_)
Tokens(x) ==
  CASE x.t = "null" -> << [k |-> "null", c |-> 0, cp |-> <<>>, b |-> FALSE] >>
    [] x.t = "bool" -> << [k |-> "bool", c |-> 0, cp |-> <<>>, b |-> x.b] >>
    [] x.t = "num"  -> << [k |-> "num", c |-> 0, cp |-> x.lit, b |-> FALSE] >>
    [] x.t = "str"  -> << [k |-> "str", c |-> 0, cp |-> x.cp, b |-> FALSE] >>
    [] x.t = "arr"  -> LET n == Len(x.e)
                           f[i \in 0..n] == IF i = 0 THEN <<>> ELSE f[i-1] \o Tokens(x.e[i])
                       IN  <<TDelim(91)>> \o f[n] \o <<TDelim(93)>>
    [] OTHER        -> LET n == Len(x.m)
                           f[i \in 0..n] == IF i = 0 THEN <<>>
                                            ELSE f[i-1] \o << [k |-> "str", c |-> 0, cp |-> x.m[i].k, b |-> FALSE] >> \o Tokens(x.m[i].v)
                       IN  <<TDelim(123)>> \o f[n] \o <<TDelim(125)>>

Emit ==
  IF EmitOn THEN
    PrintT(ToJson([fam |-> "enc", v |-> v, text |-> Enc(v, FALSE),
                   sortedesc |-> Enc(SortKeys(v), TRUE), sortedraw |-> Enc(SortKeys(v), FALSE),
                   keys |-> IF v.t = "obj" THEN Keys(v) ELSE <<>>,
                   tokens |-> Tokens(v),
                   \* Encoder.SetIndent(prefix, indent): prefix only, indent only, both
                   indp |-> Indent(Enc(SortKeys(v), FALSE), <<62>>, <<>>).out,
                   indi |-> Indent(Enc(SortKeys(v), FALSE), <<>>, <<9>>).out,
                   indb |-> Indent(Enc(SortKeys(v), FALSE), <<62, 62>>, <<32>>).out]))
  ELSE TRUE
=============================================================================
