---------------------------- MODULE IndexLemmas ----------------------------
(***************************************************************************)
(* Unbounded lemma about the index rule, discharged by Apalache            *)
(* (apalache-mc check --length=0 --inv=InRange IndexLemmas.tla): for every  *)
(* integer index, every array length and both settings, NormIndex returns  *)
(* -1 or a position inside the array (0..n-1, or 0..n for add), and a      *)
(* non-negative in-range index is returned unchanged.                      *)
(***************************************************************************)
EXTENDS IndexRule

VARIABLES
  \* @type: Int;
  i,
  \* @type: Int;
  n,
  \* @type: Bool;
  neg,
  \* @type: Bool;
  forAdd

Init == i \in Int /\ n \in Nat /\ neg \in BOOLEAN /\ forAdd \in BOOLEAN
Next == UNCHANGED <<i, n, neg, forAdd>>

InRange == NormIndexInRange(i, n, neg, forAdd)
Identity == LET m == IF forAdd THEN n + 1 ELSE n IN (i >= 0 /\ i < m) => NormIndex(i, n, neg, forAdd) = i
Disabled == (~neg /\ i < 0) => NormIndex(i, n, neg, forAdd) = -1
FromEnd == LET m == IF forAdd THEN n + 1 ELSE n IN (neg /\ i < 0 /\ i >= 0 - m) => NormIndex(i, n, neg, forAdd) = i + m
All == InRange /\ Identity /\ Disabled /\ FromEnd
=============================================================================
