------------------------------ MODULE Scanner ------------------------------
(***************************************************************************)
(* The JSON scanner of the embedded codec (internal/json/scanner.go) as a  *)
(* push-down automaton, and the transducers built on it (indent.go,        *)
(* encode.go): checkValid, compact(escape), Indent, HTMLEscape.            *)
(*                                                                         *)
(* One TLA+ operator per Go state function; Step(s, c) is scan.step(scan,  *)
(* c) and returns the new scanner state together with the opcode.  The     *)
(* scanner state is [step, stack, endTop, err]:                            *)
(*   step    name of the current state function                            *)
(*   stack   parseState: "K" object key, "V" object value, "A" array value *)
(*   endTop  a complete top-level value has been seen                      *)
(*   err     scan.err # nil                                                *)
(***************************************************************************)
EXTENDS Integers, Sequences, SequencesExt

CONSTANT MaxDepth          \* maxNestingDepth (10000 in the code)

IsSp(c)    == c = 32 \/ c = 9 \/ c = 13 \/ c = 10
IsDig(c)   == c >= 48 /\ c <= 57
IsDig19(c) == c >= 49 /\ c <= 57
IsHex(c)   == IsDig(c) \/ (c >= 97 /\ c <= 102) \/ (c >= 65 /\ c <= 70)

S0 == [step |-> "BeginValue", stack |-> <<>>, endTop |-> FALSE, err |-> FALSE]

Ret(s, op)    == [s |-> s, op |-> op]
Fail(s)       == Ret([s EXCEPT !.step = "Error", !.err = TRUE], "Error")          \* s.error(...)
To(s, st, op) == Ret([s EXCEPT !.step = st], op)
SetTop(s, ps) == [s EXCEPT !.stack[Len(s.stack)] = ps]

Push(s, st, ps, op) ==                                                            \* pushParseState
  LET s2 == [s EXCEPT !.step = st, !.stack = Append(@, ps)] IN
  IF Len(s2.stack) <= MaxDepth THEN Ret(s2, op) ELSE Fail(s2)

Pop(s) ==                                                                         \* popParseState
  LET n == Len(s.stack) - 1 IN
  IF n = 0 THEN [s EXCEPT !.stack = <<>>, !.step = "EndTop", !.endTop = TRUE]
  ELSE [s EXCEPT !.stack = SubSeq(@, 1, n), !.step = "EndValue"]

StEndTop(s, c) ==
  IF ~IsSp(c) THEN Ret([s EXCEPT !.step = "Error", !.err = TRUE], "End")         \* complains on the next call
  ELSE Ret(s, "End")

StEndValue(s, c) ==
  LET n == Len(s.stack) IN
  IF n = 0 THEN StEndTop([s EXCEPT !.step = "EndTop", !.endTop = TRUE], c)
  ELSE IF IsSp(c) THEN To(s, "EndValue", "SkipSpace")
  ELSE LET ps == s.stack[n] IN
    CASE ps = "K" -> IF c = 58 THEN To(SetTop(s, "V"), "BeginValue", "ObjectKey") ELSE Fail(s)
      [] ps = "V" -> IF c = 44 THEN To(SetTop(s, "K"), "BeginString", "ObjectValue")
                     ELSE IF c = 125 THEN Ret(Pop(s), "EndObject")
                     ELSE Fail(s)
      [] OTHER    -> IF c = 44 THEN To(s, "BeginValue", "ArrayValue")
                     ELSE IF c = 93 THEN Ret(Pop(s), "EndArray")
                     ELSE Fail(s)

StBeginValue(s, c) ==
  IF IsSp(c) THEN Ret(s, "SkipSpace")
  ELSE CASE c = 123 -> Push(s, "BeginStringOrEmpty", "K", "BeginObject")
         [] c = 91  -> Push(s, "BeginValueOrEmpty", "A", "BeginArray")
         [] c = 34  -> To(s, "InString", "BeginLiteral")
         [] c = 45  -> To(s, "Neg", "BeginLiteral")
         [] c = 48  -> To(s, "0", "BeginLiteral")
         [] c = 116 -> To(s, "T", "BeginLiteral")
         [] c = 102 -> To(s, "F", "BeginLiteral")
         [] c = 110 -> To(s, "N", "BeginLiteral")
         [] IsDig19(c) -> To(s, "1", "BeginLiteral")
         [] OTHER   -> Fail(s)

StBeginValueOrEmpty(s, c) ==
  IF IsSp(c) THEN Ret(s, "SkipSpace")
  ELSE IF c = 93 THEN StEndValue(s, c)
  ELSE StBeginValue(s, c)

StBeginString(s, c) ==
  IF IsSp(c) THEN Ret(s, "SkipSpace")
  ELSE IF c = 34 THEN To(s, "InString", "BeginLiteral")
  ELSE Fail(s)

StBeginStringOrEmpty(s, c) ==
  IF IsSp(c) THEN Ret(s, "SkipSpace")
  ELSE IF c = 125 THEN StEndValue(SetTop(s, "V"), c)
  ELSE StBeginString(s, c)

StInString(s, c) ==
  IF c = 34 THEN To(s, "EndValue", "Continue")
  ELSE IF c = 92 THEN To(s, "InStringEsc", "Continue")
  ELSE IF c < 32 THEN Fail(s)
  ELSE Ret(s, "Continue")

StInStringEsc(s, c) ==
  IF c \in {98, 102, 110, 114, 116, 92, 47, 34} THEN To(s, "InString", "Continue")
  ELSE IF c = 117 THEN To(s, "InStringEscU", "Continue")
  ELSE Fail(s)

StHex(s, c, next) == IF IsHex(c) THEN To(s, next, "Continue") ELSE Fail(s)

St0(s, c) ==
  IF c = 46 THEN To(s, "Dot", "Continue")
  ELSE IF c = 101 \/ c = 69 THEN To(s, "E", "Continue")
  ELSE StEndValue(s, c)

StESign(s, c) == IF IsDig(c) THEN To(s, "E0", "Continue") ELSE Fail(s)

Lit(s, c, want, next) == IF c = want THEN To(s, next, "Continue") ELSE Fail(s)

Step(s, c) ==
  CASE s.step = "BeginValue"          -> StBeginValue(s, c)
    [] s.step = "BeginValueOrEmpty"   -> StBeginValueOrEmpty(s, c)
    [] s.step = "BeginString"         -> StBeginString(s, c)
    [] s.step = "BeginStringOrEmpty"  -> StBeginStringOrEmpty(s, c)
    [] s.step = "EndValue"            -> StEndValue(s, c)
    [] s.step = "EndTop"              -> StEndTop(s, c)
    [] s.step = "InString"            -> StInString(s, c)
    [] s.step = "InStringEsc"         -> StInStringEsc(s, c)
    [] s.step = "InStringEscU"        -> StHex(s, c, "InStringEscU1")
    [] s.step = "InStringEscU1"       -> StHex(s, c, "InStringEscU12")
    [] s.step = "InStringEscU12"      -> StHex(s, c, "InStringEscU123")
    [] s.step = "InStringEscU123"     -> StHex(s, c, "InString")
    [] s.step = "Neg"                 -> IF c = 48 THEN To(s, "0", "Continue")
                                         ELSE IF IsDig19(c) THEN To(s, "1", "Continue") ELSE Fail(s)
    [] s.step = "1"                   -> IF IsDig(c) THEN To(s, "1", "Continue") ELSE St0(s, c)
    [] s.step = "0"                   -> St0(s, c)
    [] s.step = "Dot"                 -> IF IsDig(c) THEN To(s, "Dot0", "Continue") ELSE Fail(s)
    [] s.step = "Dot0"                -> IF IsDig(c) THEN Ret(s, "Continue")
                                         ELSE IF c = 101 \/ c = 69 THEN To(s, "E", "Continue")
                                         ELSE StEndValue(s, c)
    [] s.step = "E"                   -> IF c = 43 \/ c = 45 THEN To(s, "ESign", "Continue") ELSE StESign(s, c)
    [] s.step = "ESign"               -> StESign(s, c)
    [] s.step = "E0"                  -> IF IsDig(c) THEN Ret(s, "Continue") ELSE StEndValue(s, c)
    [] s.step = "T"                   -> Lit(s, c, 114, "Tr")
    [] s.step = "Tr"                  -> Lit(s, c, 117, "Tru")
    [] s.step = "Tru"                 -> Lit(s, c, 101, "EndValue")
    [] s.step = "F"                   -> Lit(s, c, 97, "Fa")
    [] s.step = "Fa"                  -> Lit(s, c, 108, "Fal")
    [] s.step = "Fal"                 -> Lit(s, c, 115, "Fals")
    [] s.step = "Fals"                -> Lit(s, c, 101, "EndValue")
    [] s.step = "N"                   -> Lit(s, c, 117, "Nu")
    [] s.step = "Nu"                  -> Lit(s, c, 108, "Nul")
    [] s.step = "Nul"                 -> Lit(s, c, 108, "EndValue")
    [] OTHER                          -> Ret(s, "Error")                           \* stateError

StepNames == { "BeginValue", "BeginValueOrEmpty", "BeginString", "BeginStringOrEmpty", "EndValue", "EndTop",
               "InString", "InStringEsc", "InStringEscU", "InStringEscU1", "InStringEscU12", "InStringEscU123",
               "Neg", "1", "0", "Dot", "Dot0", "E", "ESign", "E0", "T", "Tr", "Tru", "F", "Fa", "Fal", "Fals",
               "N", "Nu", "Nul", "Error" }

Eof(s) ==                                                                         \* scan.eof()
  IF s.err THEN "Error"
  ELSE IF s.endTop THEN "End"
  ELSE LET s2 == Step(s, 32).s IN
       IF s2.endTop THEN "End" ELSE "Error"

(***************************************************************************)
(* checkValid: feed every byte, stop at the first scanError, then eof.     *)
(***************************************************************************)
\* All folds below go through SequencesExt!FoldLeft, which TLC evaluates iteratively with a strict
\* accumulator (a recursive function definition would re-evaluate its predecessor at every mention).
Idx(w) == [i \in 1..Len(w) |-> i]

RunFrom(s0, w) ==           \* scanner state after the bytes of w (stops changing once in Error)
  FoldLeft(LAMBDA s, c : Step(s, c).s, s0, w)

ValidStep(a, c) == IF a.dead THEN a ELSE LET r == Step(a.s, c) IN [s |-> r.s, dead |-> r.op = "Error"]
ValidFrom(s0, w) ==
  LET last == FoldLeft(ValidStep, [s |-> s0, dead |-> FALSE], w)
  IN  ~last.dead /\ Eof(last.s) # "Error"

Valid(w) == ValidFrom(S0, w)

(***************************************************************************)
(* compact(dst, src, escape) of indent.go.  Returns [ok, out].             *)
(***************************************************************************)
HexLower(n) == IF n < 10 THEN 48 + n ELSE 87 + n
IsHtml(c) == c = 60 \/ c = 62 \/ c = 38
IsLineSep(w, i) == w[i] = 226 /\ i + 2 <= Len(w) /\ w[i+1] = 128 /\ (w[i+2] = 168 \/ w[i+2] = 169)

CompactStep(p, w, i, escape) ==
  IF p.dead THEN p
  ELSE
    LET c == w[i]
        flush(a) == IF a.start < i THEN [a EXCEPT !.out = @ \o SubSeq(w, a.start, i - 1)] ELSE a
        a1 == IF escape /\ IsHtml(c)
              THEN [flush(p) EXCEPT !.out = @ \o <<92, 117, 48, 48, HexLower(c \div 16), HexLower(c % 16)>>, !.start = i + 1]
              ELSE p
        a2 == IF escape /\ IsLineSep(w, i)
              THEN [flush(a1) EXCEPT !.out = @ \o <<92, 117, 50, 48, 50, HexLower(w[i+2] % 16)>>, !.start = i + 3]
              ELSE a1
        r  == Step(a2.s, c)
        a3 == [a2 EXCEPT !.s = r.s]
    IN  IF r.op = "Error" THEN [a3 EXCEPT !.dead = TRUE]
        ELSE IF r.op = "SkipSpace" \/ r.op = "End" THEN [flush(a3) EXCEPT !.start = i + 1]
        ELSE a3

\* start: 1-based index of the first byte of src not yet written or dropped (Go's start+1)
Compact(w, escape) ==
  LET n == Len(w)
      last == FoldLeft(LAMBDA p, i : CompactStep(p, w, i, escape), [s |-> S0, out |-> <<>>, start |-> 1, dead |-> FALSE], Idx(w))
  IN  IF Eof(last.s) = "Error" THEN [ok |-> FALSE, out |-> <<>>]
      ELSE [ok |-> TRUE, out |-> IF last.start <= n THEN last.out \o SubSeq(w, last.start, n) ELSE last.out]

(***************************************************************************)
(* Indent(dst, src, prefix, indent) of indent.go.  Returns [ok, out].      *)
(***************************************************************************)
RECURSIVE Rep(_, _)
Rep(x, k) == IF k <= 0 THEN <<>> ELSE x \o Rep(x, k - 1)
NewLine(prefix, indent, depth) == <<10>> \o prefix \o Rep(indent, depth)

IndentStep(p, c, prefix, indent) ==
  IF p.dead THEN p
  ELSE
    LET r == Step(p.s, c)
        a == [p EXCEPT !.s = r.s]
    IN  IF r.op = "SkipSpace" THEN a
        ELSE IF r.op = "Error" THEN [a EXCEPT !.dead = TRUE]
        ELSE
          LET b == IF a.need /\ r.op # "EndObject" /\ r.op # "EndArray"
                   THEN [a EXCEPT !.need = FALSE, !.depth = @ + 1, !.out = @ \o NewLine(prefix, indent, a.depth + 1)]
                   ELSE a
          IN  IF r.op = "Continue" THEN [b EXCEPT !.out = Append(@, c)]
              ELSE CASE c = 123 \/ c = 91 -> [b EXCEPT !.need = TRUE, !.out = Append(@, c)]
                     [] c = 44            -> [b EXCEPT !.out = Append(@, c) \o NewLine(prefix, indent, b.depth)]
                     [] c = 58            -> [b EXCEPT !.out = @ \o <<c, 32>>]
                     [] c = 125 \/ c = 93 -> IF b.need THEN [b EXCEPT !.need = FALSE, !.out = Append(@, c)]
                                             ELSE [b EXCEPT !.depth = @ - 1,
                                                            !.out = (@ \o NewLine(prefix, indent, b.depth - 1)) \o <<c>>]
                     [] OTHER             -> [b EXCEPT !.out = Append(@, c)]

Indent(w, prefix, indent) ==
  LET last == FoldLeft(LAMBDA p, c : IndentStep(p, c, prefix, indent),
                       [s |-> S0, out |-> <<>>, need |-> FALSE, depth |-> 0, dead |-> FALSE], w)
  IN  IF Eof(last.s) = "Error" THEN [ok |-> FALSE, out |-> <<>>] ELSE [ok |-> TRUE, out |-> last.out]

(***************************************************************************)
(* HTMLEscape(dst, src) of encode.go (no scanner involved).                *)
(***************************************************************************)
HtmlStep(p, w, i) ==
  LET c == w[i] IN
  IF p.skip > 0 THEN [p EXCEPT !.skip = @ - 1]
  ELSE IF IsHtml(c) THEN [p EXCEPT !.out = @ \o <<92, 117, 48, 48, HexLower(c \div 16), HexLower(c % 16)>>]
  ELSE IF IsLineSep(w, i) THEN [out |-> p.out \o <<92, 117, 50, 48, 50, HexLower(w[i+2] % 16)>>, skip |-> 2]
  ELSE [p EXCEPT !.out = Append(@, c)]

HTMLEscape(w) == FoldLeft(LAMBDA p, i : HtmlStep(p, w, i), [out |-> <<>>, skip |-> 0], Idx(w)).out
=============================================================================
