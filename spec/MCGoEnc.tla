------------------------------ MODULE MCGoEnc ------------------------------
(***************************************************************************)
(* A bounded universe of Go values for GoEnc and the emitter for the codec *)
(* replay: the harness builds each value with reflect (struct types with   *)
(* reflect.StructOf), encodes it with the embedded codec and compares the  *)
(* bytes with GoMarshal, for both settings of the HTML-escape switch.      *)
(***************************************************************************)
EXTENDS GoEnc, JsonText, Json, TLC

CONSTANTS EmitOn, Level

Nil == [g |-> "nil"]
B(b) == [g |-> "bool", b |-> b]
I(i) == [g |-> "int", i |-> i]
Fl(l) == [g |-> "float", lit |-> l]
S(b) == [g |-> "str", bytes |-> b]
Sl(e) == [g |-> "slice", nil |-> FALSE, e |-> e]
NilSl == [g |-> "slice", nil |-> TRUE, e |-> <<>>]
By(b) == [g |-> "bytes", nil |-> FALSE, b |-> b]
NilBy == [g |-> "bytes", nil |-> TRUE, b |-> <<>>]
Mp(m) == [g |-> "map", nil |-> FALSE, m |-> m]
NilMp == [g |-> "map", nil |-> TRUE, m |-> <<>>]
IM(m) == [g |-> "imap", m |-> m]
P(v) == [g |-> "ptr", nil |-> FALSE, v |-> v]
NilP(v) == [g |-> "ptr", nil |-> TRUE, v |-> v]           \* a nil pointer whose element type is that of v
KV(k, v) == [k |-> k, v |-> v]
St(f) == [g |-> "struct", f |-> f]
\* fields: F plain, T with a tag name, and the options
F(name, v) == [name |-> name, tagged |-> FALSE, tname |-> <<>>, omitempty |-> FALSE, str |-> FALSE, dash |-> FALSE, anon |-> FALSE, v |-> v]
Tn(f, t) == [f EXCEPT !.tagged = TRUE, !.tname = t]
Om(f) == [f EXCEPT !.tagged = TRUE, !.omitempty = TRUE]
Qs(f) == [f EXCEPT !.tagged = TRUE, !.str = TRUE]
Dash(f) == [f EXCEPT !.tagged = TRUE, !.dash = TRUE]
Anon(name, v) == [F(name, v) EXCEPT !.anon = TRUE]

\* float64 values, named by the literal encoding/json prints for them
\* (exponent form below 1e-6 and from 1e21; a one-digit negative exponent is written without the leading zero: 1e-7, not 1e-07)
GoFloats == { <<48>>, <<49,46,53>>, <<49,101,43,50,49>>, <<49,101,45,55>>, <<49,101,45,49,48>>, <<49,48,48>>, <<45,48>>, <<48,46,49>> }
\*              0       1.5          1e+21                 1e-7             1e-10                100        -0        0.1

nA == <<65>>  nB == <<66>>  nC == <<67>>  nx == <<120>>  nAb == <<65, 98>>  nS == <<83>>
Scalars == { Nil, B(TRUE), B(FALSE), I(0), I(7), I(-12), Fl(<<49,46,53>>), Fl(<<48>>), Fl(<<49,101,43,50,49>>), Fl(<<49,101,45,55>>), Fl(<<50,46,53,101,45,49,48>>), Fl(<<45,48>>),
             S(<<>>), S(<<97>>), S(<<60, 38, 62>>), S(<<34, 92, 10, 1>>), S(<<195, 169, 226, 128, 168>>),
             S(<<255, 97>>), S(<<226, 130>>), S(<<240, 159, 152, 128>>) }
Containers(E) ==
     { Sl(<<>>), NilSl, NilBy, By(<<>>), By(<<1>>), By(<<1, 2>>), By(<<255, 254, 253>>), NilMp, Mp(<<>>) }
  \cup { Sl(<<x>>) : x \in E } \cup { Sl(<<x, y>>) : x \in {Nil, I(7)}, y \in E }
  \cup { Mp(<<KV(<<98>>, x), KV(<<97>>, I(7))>>) : x \in E } \cup { Mp(<<KV(<<60>>, x)>>) : x \in {Nil, S(<<38>>)} }
  \cup { IM(<<KV(10, x), KV(2, I(0))>>) : x \in {Nil, B(TRUE)} }
  \cup { P(x) : x \in { I(0), I(7), S(<<97>>), B(FALSE) } } \cup { NilP(I(0)), NilP(S(<<>>)) }
Structs(E) ==
     { St(<<F(nA, x), F(nB, I(7))>>) : x \in E }
  \cup { St(<<Tn(F(nA, x), <<110>>), F(nx, I(1)), Dash(F(nB, I(7)))>>) : x \in E }                     \* renamed, unexported, "-"
  \cup { St(<<Om(F(nA, x)), Om(Tn(F(nB, y), <<98>>))>>) : x \in E, y \in {I(0), I(7), S(<<>>), NilP(I(0)), P(I(0))} }   \* omitempty
  \cup { St(<<Qs(F(nA, x)), F(nC, B(TRUE))>>) : x \in {B(TRUE), I(-12), Fl(<<49,46,53>>), Fl(<<49,101,45,55>>), Fl(<<49,101,43,50,49>>), Fl(<<50,46,53,101,45,49,48>>),
                                                            S(<<97>>), S(<<60>>), S(<<195, 169, 226, 128, 168>>), S(<<255, 34>>), P(S(<<233>>)), Sl(<<>>), P(Fl(<<49,101,45,55>>))} }   \* ,string
  \cup { St(<<F(nC, I(1)), Anon(nAb, St(<<F(nA, x), F(nx, I(2))>>)), F(nB, I(3))>>) : x \in {I(7), Nil, S(<<97>>)} }   \* embedded
  \cup { St(<<F(nA, P(St(<<F(nB, x)>>)))>>) : x \in {I(7), NilSl} }
  \cup { St(<<>>) }

\* typed containers, json.Number, and values of types with marshalling methods
TSl(z, e) == [g |-> "tslice", nil |-> FALSE, e |-> e, z |-> z]
NilTSl(z) == [g |-> "tslice", nil |-> TRUE, e |-> <<>>, z |-> z]
TMp(z, m) == [g |-> "tmap", nil |-> FALSE, m |-> m, z |-> z]
NilTMp(z) == [g |-> "tmap", nil |-> TRUE, m |-> <<>>, z |-> z]
Nm(l) == [g |-> "number", lit |-> l]
Ma(t) == [g |-> "marsh", text |-> t, fail |-> FALSE]
MaFail == [g |-> "marsh", text |-> <<49>>, fail |-> TRUE]
Tx(t) == [g |-> "textm", text |-> t]
Rd(x) == [g |-> "redir", v |-> x]
Tr(b) == [g |-> "trust", b |-> b]
Ifc(x) == [g |-> "iface", v |-> x]
Typed == { St(<<Om(F(nA, Ifc(B(FALSE)))), Om(F(nB, Ifc(I(0)))), Om(F(nC, Nil)), Qs(F(nx, I(1)))>>), St(<<Qs(F(nA, Ifc(I(7)))), Qs(F(nB, Nm(<<49,46,48>>))), Qs(F(nC, Nm(<<>>))), Qs(F(nS, P(Nm(<<48,46,49,48>>))))>>),
           Nm(<<>>), Mp(<<KV(<<98>>, St(<<F(nB, I(1)), F(nA, I(2))>>)), KV(<<97>>, Sl(<<St(<<F(nC, I(1)), F(nA, Nil)>>)>>))>>),   \* structs inside a map keep their order
           TMp(St(<<F(nB, I(0)), F(nA, I(0))>>), <<KV(<<122>>, St(<<F(nB, I(1)), F(nA, I(2))>>)), KV(<<>>, St(<<F(nB, I(3)), F(nA, I(4))>>))>>), NilTSl(I(0)), TSl(I(0), <<>>), TSl(I(0), <<I(7), I(-12)>>), TSl(S(<<>>), <<S(<<60>>), S(<<>>)>>), TSl(NilP(I(0)), <<NilP(I(0)), P(I(7))>>),
           NilTMp(I(0)), TMp(I(0), <<>>), TMp(I(0), <<KV(<<98>>, I(1)), KV(<<97>>, I(2))>>), TMp(NilSl, <<KV(<<60>>, Sl(<<I(1)>>)), KV(<<>>, NilSl)>>),
           Nm(<<49,46,48>>), Nm(<<49,101,52,48,48>>), Nm(<<45,48>>),
           TSl(Nm(<<48>>), <<Nm(<<49>>), Nm(<<48,46,49,48>>)>>) }
Customs == { Ma(<<123,34,97,34,32,58,32,49,125>>),          \* {"a" : 1}
             Ma(<<34,60,226,128,168,34>>),                  \* "<U+2028>"
             Ma(<<32,91,49,44,32,50,93,10>>),               \*  [1, 2]\n
             Ma(<<110,117,108>>),                           \* nul   (ill-formed: Marshal fails)
             Ma(<<>>), MaFail,
             Tx(<<97,60,98>>), Tx(<<>>), Tx(<<255,34>>),
             Rd(I(7)), Rd(Nil), Rd(Mp(<<KV(<<98>>, S(<<60>>)), KV(<<97>>, Ma(<<91,32,93>>))>>)), Rd(Ma(<<91,32,93>>)), Rd(MaFail),
             Tr(<<123,34,120,34,58,32,49,125>>),            \* {"x": 1}  written as it is
             Tr(<<60,114,97,119,62>>), Tr(<<>>) }           \* <raw>, nothing
CustomUses(C) == C \cup { Sl(<<x, I(7)>>) : x \in C } \cup { Mp(<<KV(<<107>>, x)>>) : x \in C } \cup { P(x) : x \in C }
                   \cup { St(<<F(nA, x), F(nB, I(7))>>) : x \in C } \cup { St(<<Om(F(nA, x))>>) : x \in C } \cup { St(<<Dash(F(nA, x)), F(nx, x)>>) : x \in C }
                   \cup { TSl(x, <<x, x>>) : x \in C } \cup { NilP(x) : x \in {Ma(<<49>>), Tx(<<97>>), Rd(I(7)), Tr(<<49>>)} }

L1 == Scalars \cup Containers(Scalars)
L2 == L1 \cup Structs(L1 \ {NilP(I(0)), NilP(S(<<>>))}) \cup Structs({NilP(I(0))})
L3 == L2 \cup Typed \cup Structs(Typed) \cup CustomUses(Customs)
GU == IF Level = 1 THEN L1 ELSE IF Level = 2 THEN L2 ELSE L3

VARIABLES v, done
gvars == <<v, done>>
GInit == v \in GU /\ done = FALSE
GNext == ~done /\ done' = TRUE /\ UNCHANGED v
GSpec == GInit /\ [][GNext]_gvars

\* what is written is well-formed JSON, free of raw HTML characters when escaping is on
RECURSIVE HasCustom(_)
HasCustom(x) ==
  CASE x.g \in {"marsh", "textm", "redir", "trust"} -> TRUE
    [] x.g \in {"slice", "tslice"} -> \E i \in 1..Len(x.e) : HasCustom(x.e[i])
    [] x.g \in {"map", "imap", "tmap"} -> \E i \in 1..Len(x.m) : HasCustom(x.m[i].v)
    [] x.g \in {"ptr", "iface"} -> HasCustom(x.v)
    [] x.g = "struct" -> \E i \in 1..Len(x.f) : HasCustom(x.f[i].v)
    [] OTHER -> FALSE
RECURSIVE HasTrust(_)
HasTrust(x) ==
  CASE x.g = "trust" -> TRUE
    [] x.g = "redir" -> HasTrust(x.v)
    [] x.g \in {"slice", "tslice"} -> \E i \in 1..Len(x.e) : HasTrust(x.e[i])
    [] x.g \in {"map", "imap", "tmap"} -> \E i \in 1..Len(x.m) : HasTrust(x.m[i].v)
    [] x.g \in {"ptr", "iface"} -> HasTrust(x.v)
    [] x.g = "struct" -> \E i \in 1..Len(x.f) : HasTrust(x.f[i].v)
    [] OTHER -> FALSE
\* (what a TrustMarshaler writes is its own business: only values without one are claimed to give well-formed output)
WellFormedOut ==
  \A esc \in BOOLEAN :
     (~GoFails(v) /\ ~GoUnspecified(v) /\ ~HasTrust(v)) =>
        LET b == GoMarshal(v, esc) IN
        /\ ParseText(b).ok
        /\ ~HasCustom(v) => ParseText(b).v = AsRead(GoToJson(v, esc))
        /\ esc => \A i \in 1..Len(b) : b[i] \notin {60, 62, 38}

Emit == IF EmitOn THEN PrintT(ToJson([fam |-> "goenc", g |-> v, fails |-> GoFails(v), custom |-> HasCustom(v), dc |-> GoUnspecified(v),
                                       esc |-> IF GoFails(v) \/ GoUnspecified(v) THEN <<>> ELSE GoMarshal(v, TRUE),
                                       raw |-> IF GoFails(v) \/ GoUnspecified(v) THEN <<>> ELSE GoMarshal(v, FALSE)])) ELSE TRUE
=============================================================================
