------------------------------ MODULE MCGoEnc ------------------------------
(***************************************************************************)
(* A bounded universe of Go values for GoEnc and the emitter for the codec *)
(* replay: the harness builds each value with reflect (struct types with   *)
(* reflect.StructOf), encodes it with the embedded codec and compares the  *)
(* bytes with GoMarshal, for both settings of the HTML-escape switch.      *)
(***************************************************************************)
EXTENDS GoEnc, JsonText, Json, TLC

CONSTANTS EmitOn, Level

Nil == [g |-> "nil"]
B(b) == [g |-> "bool", b |-> b]
I(i) == [g |-> "int", i |-> i]
Fl(l) == [g |-> "float", lit |-> l]
S(b) == [g |-> "str", bytes |-> b]
Sl(e) == [g |-> "slice", nil |-> FALSE, e |-> e]
NilSl == [g |-> "slice", nil |-> TRUE, e |-> <<>>]
By(b) == [g |-> "bytes", nil |-> FALSE, b |-> b]
NilBy == [g |-> "bytes", nil |-> TRUE, b |-> <<>>]
Mp(m) == [g |-> "map", nil |-> FALSE, m |-> m]
NilMp == [g |-> "map", nil |-> TRUE, m |-> <<>>]
IM(m) == [g |-> "imap", m |-> m]
P(v) == [g |-> "ptr", nil |-> FALSE, v |-> v]
NilP(v) == [g |-> "ptr", nil |-> TRUE, v |-> v]           \* a nil pointer whose element type is that of v
KV(k, v) == [k |-> k, v |-> v]
St(f) == [g |-> "struct", f |-> f]
\* fields: F plain, T with a tag name, and the options
F(name, v) == [name |-> name, tagged |-> FALSE, tname |-> <<>>, omitempty |-> FALSE, str |-> FALSE, dash |-> FALSE, anon |-> FALSE, v |-> v]
Tn(f, t) == [f EXCEPT !.tagged = TRUE, !.tname = t]
Om(f) == [f EXCEPT !.tagged = TRUE, !.omitempty = TRUE]
Qs(f) == [f EXCEPT !.tagged = TRUE, !.str = TRUE]
Dash(f) == [f EXCEPT !.tagged = TRUE, !.dash = TRUE]
Anon(name, v) == [F(name, v) EXCEPT !.anon = TRUE]

\* float64 values, named by the literal encoding/json prints for them
\* (exponent form below 1e-6 and from 1e21; a one-digit negative exponent is written without the leading zero: 1e-7, not 1e-07)
GoFloats == { <<48>>, <<49,46,53>>, <<49,101,43,50,49>>, <<49,101,45,55>>, <<49,101,45,49,48>>, <<49,48,48>>, <<45,48>>, <<48,46,49>> }
\*              0       1.5          1e+21                 1e-7             1e-10                100        -0        0.1

nA == <<65>>  nB == <<66>>  nC == <<67>>  nx == <<120>>  nAb == <<65, 98>>
Scalars == { Nil, B(TRUE), B(FALSE), I(0), I(7), I(-12), Fl(<<49,46,53>>), Fl(<<48>>), Fl(<<49,101,43,50,49>>), Fl(<<49,101,45,55>>), Fl(<<50,46,53,101,45,49,48>>), Fl(<<45,48>>),
             S(<<>>), S(<<97>>), S(<<60, 38, 62>>), S(<<34, 92, 10, 1>>), S(<<195, 169, 226, 128, 168>>),
             S(<<255, 97>>), S(<<226, 130>>), S(<<240, 159, 152, 128>>) }
Containers(E) ==
     { Sl(<<>>), NilSl, NilBy, By(<<>>), By(<<1>>), By(<<1, 2>>), By(<<255, 254, 253>>), NilMp, Mp(<<>>) }
  \cup { Sl(<<x>>) : x \in E } \cup { Sl(<<x, y>>) : x \in {Nil, I(7)}, y \in E }
  \cup { Mp(<<KV(<<98>>, x), KV(<<97>>, I(7))>>) : x \in E } \cup { Mp(<<KV(<<60>>, x)>>) : x \in {Nil, S(<<38>>)} }
  \cup { IM(<<KV(10, x), KV(2, I(0))>>) : x \in {Nil, B(TRUE)} }
  \cup { P(x) : x \in { I(0), I(7), S(<<97>>), B(FALSE) } } \cup { NilP(I(0)), NilP(S(<<>>)) }
Structs(E) ==
     { St(<<F(nA, x), F(nB, I(7))>>) : x \in E }
  \cup { St(<<Tn(F(nA, x), <<110>>), F(nx, I(1)), Dash(F(nB, I(7)))>>) : x \in E }                     \* renamed, unexported, "-"
  \cup { St(<<Om(F(nA, x)), Om(Tn(F(nB, y), <<98>>))>>) : x \in E, y \in {I(0), I(7), S(<<>>), NilP(I(0)), P(I(0))} }   \* omitempty
  \cup { St(<<Qs(F(nA, x)), F(nC, B(TRUE))>>) : x \in {B(TRUE), I(-12), Fl(<<49,46,53>>), Fl(<<49,101,45,55>>), Fl(<<49,101,43,50,49>>), Fl(<<50,46,53,101,45,49,48>>),
                                                            S(<<97>>), S(<<60>>), Sl(<<>>), P(Fl(<<49,101,45,55>>))} }   \* ,string
  \cup { St(<<F(nC, I(1)), Anon(nAb, St(<<F(nA, x), F(nx, I(2))>>)), F(nB, I(3))>>) : x \in {I(7), Nil, S(<<97>>)} }   \* embedded
  \cup { St(<<F(nA, P(St(<<F(nB, x)>>)))>>) : x \in {I(7), NilSl} }
  \cup { St(<<>>) }

L1 == Scalars \cup Containers(Scalars)
L2 == L1 \cup Structs(L1 \ {NilP(I(0)), NilP(S(<<>>))}) \cup Structs({NilP(I(0))})
GU == IF Level = 1 THEN L1 ELSE L2

VARIABLES v, done
gvars == <<v, done>>
GInit == v \in GU /\ done = FALSE
GNext == ~done /\ done' = TRUE /\ UNCHANGED v
GSpec == GInit /\ [][GNext]_gvars

\* what is written is well-formed JSON, free of raw HTML characters when escaping is on
WellFormedOut ==
  \A esc \in BOOLEAN : LET b == GoMarshal(v, esc) IN ParseText(b).ok /\ ParseText(b).v = AsRead(GoToJson(v, esc))

Emit == IF EmitOn THEN PrintT(ToJson([fam |-> "goenc", g |-> v, esc |-> GoMarshal(v, TRUE), raw |-> GoMarshal(v, FALSE)])) ELSE TRUE
=============================================================================
