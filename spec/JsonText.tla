------------------------------ MODULE JsonText ------------------------------
(***************************************************************************)
(* RFC 8259 as a declarative recursive-descent reading of a byte sequence: *)
(* the DEFINITION of "well-formed JSON text" used by the properties, and   *)
(* the abstract value a well-formed text denotes (JsonValue.tla).  It is   *)
(* written from the grammar of the RFC, independently of the scanner       *)
(* automaton of Scanner.tla, so that TLC can check the two against each    *)
(* other (MCScanner).                                                      *)
(*                                                                         *)
(*   JSON-text = ws value ws                                               *)
(*   value  = false / null / true / object / array / number / string       *)
(*   object = { ws [ member *( ws , ws member ) ] ws }   member = string ws : ws value *)
(*   array  = [ ws [ value *( ws , ws value ) ] ws ]                       *)
(*   number = [ - ] int [ frac ] [ exp ]                                   *)
(*   string = " *char "   char = unescaped / \ ( " \ / b f n r t uXXXX )   *)
(* Nesting deeper than MaxNest is not accepted (RFC 8259 section 9 lets an *)
(* implementation set such a limit; the library's is 10000).               *)
(***************************************************************************)
EXTENDS JsonValue

CONSTANT MaxNest

TWs(c) == c = 32 \/ c = 9 \/ c = 10 \/ c = 13
TDig(c) == c >= 48 /\ c <= 57
THexVal(c) == IF c >= 48 /\ c <= 57 THEN c - 48
              ELSE IF c >= 97 /\ c <= 102 THEN c - 87
              ELSE IF c >= 65 /\ c <= 70 THEN c - 55 ELSE -1

At0(w, i) == IF i >= 1 /\ i <= Len(w) THEN w[i] ELSE -1      \* -1 = end of input

RECURSIVE SkipWs(_, _)
SkipWs(w, i) == IF TWs(At0(w, i)) THEN SkipWs(w, i + 1) ELSE i

NoParse == [ok |-> FALSE, j |-> 0, v |-> Null]
Parsed(j, v) == [ok |-> TRUE, j |-> j, v |-> v]

(***************************************************************************)
(* number: returns the index after the literal, or 0.                      *)
(***************************************************************************)
RECURSIVE Digits(_, _)
Digits(w, i) == IF TDig(At0(w, i)) THEN Digits(w, i + 1) ELSE i      \* index after a (possibly empty) run of digits

NumberEnd(w, i) ==
  LET a == IF At0(w, i) = 45 THEN i + 1 ELSE i                        \* [ minus ]
      b == IF At0(w, a) = 48 THEN a + 1                               \* int = zero / ( digit1-9 *DIGIT )
           ELSE IF TDig(At0(w, a)) THEN Digits(w, a) ELSE 0
  IN  IF b = 0 THEN 0
      ELSE
        LET c == IF At0(w, b) = 46                                    \* [ frac ]
                 THEN (IF TDig(At0(w, b + 1)) THEN Digits(w, b + 1) ELSE 0)
                 ELSE b
        IN  IF c = 0 THEN 0
            ELSE IF At0(w, c) = 101 \/ At0(w, c) = 69                 \* [ exp ]
                 THEN LET d == IF At0(w, c + 1) = 43 \/ At0(w, c + 1) = 45 THEN c + 2 ELSE c + 1
                      IN  IF TDig(At0(w, d)) THEN Digits(w, d) ELSE 0
                 ELSE c

(***************************************************************************)
(* string: w[i] is the opening quote.  Returns the index after the closing *)
(* quote and the decoded code points.  A \u escape that is half of a       *)
(* surrogate pair without its partner, and a byte sequence that is not     *)
(* UTF-8, denote U+FFFD (what the library documents for decoding).         *)
(***************************************************************************)
Hex4(w, i) ==      \* value of the four hex digits at i..i+3, or -1
  LET a == THexVal(At0(w, i))  b == THexVal(At0(w, i + 1))  c == THexVal(At0(w, i + 2))  d == THexVal(At0(w, i + 3)) IN
  IF a < 0 \/ b < 0 \/ c < 0 \/ d < 0 THEN -1 ELSE a * 4096 + b * 256 + c * 16 + d

IsCont(c) == c >= 128 /\ c <= 191

\* one UTF-8 encoded code point starting at i: [n |-> bytes consumed, cp |-> code point]
Utf8At(w, i) ==
  LET c0 == At0(w, i)  c1 == At0(w, i + 1)  c2 == At0(w, i + 2)  c3 == At0(w, i + 3)
      bad == [n |-> 1, cp |-> 65533]
  IN  IF c0 < 128 THEN [n |-> 1, cp |-> c0]
      ELSE IF c0 >= 194 /\ c0 <= 223 THEN (IF IsCont(c1) THEN [n |-> 2, cp |-> (c0 - 192) * 64 + (c1 - 128)] ELSE bad)
      ELSE IF c0 >= 224 /\ c0 <= 239 THEN
             (IF IsCont(c1) /\ IsCont(c2)
              THEN LET cp == (c0 - 224) * 4096 + (c1 - 128) * 64 + (c2 - 128) IN
                   IF cp >= 2048 /\ ~(cp >= 55296 /\ cp <= 57343) THEN [n |-> 3, cp |-> cp] ELSE bad
              ELSE bad)
      ELSE IF c0 >= 240 /\ c0 <= 244 THEN
             (IF IsCont(c1) /\ IsCont(c2) /\ IsCont(c3)
              THEN LET cp == (c0 - 240) * 262144 + (c1 - 128) * 4096 + (c2 - 128) * 64 + (c3 - 128) IN
                   IF cp >= 65536 /\ cp <= 1114111 THEN [n |-> 4, cp |-> cp] ELSE bad
              ELSE bad)
      ELSE bad

SimpleEsc(c) == CASE c = 34 -> 34 [] c = 92 -> 92 [] c = 47 -> 47 [] c = 98 -> 8 [] c = 102 -> 12
                  [] c = 110 -> 10 [] c = 114 -> 13 [] c = 116 -> 9 [] OTHER -> -1

RECURSIVE StrBody(_, _, _)
StrBody(w, i, acc) ==       \* i: next byte inside the string
  LET c == At0(w, i) IN
  IF c = -1 THEN NoParse
  ELSE IF c = 34 THEN Parsed(i + 1, acc)
  ELSE IF c < 32 THEN NoParse
  ELSE IF c = 92 THEN
         LET e == At0(w, i + 1) IN
         IF e = 117 THEN
              LET u == Hex4(w, i + 2) IN
              IF u < 0 THEN NoParse
              ELSE IF u >= 55296 /\ u <= 56319 /\ At0(w, i + 6) = 92 /\ At0(w, i + 7) = 117
                      /\ Hex4(w, i + 8) >= 56320 /\ Hex4(w, i + 8) <= 57343
                   THEN StrBody(w, i + 12, Append(acc, 65536 + (u - 55296) * 1024 + (Hex4(w, i + 8) - 56320)))
              ELSE IF u >= 55296 /\ u <= 57343 THEN StrBody(w, i + 6, Append(acc, 65533))
              ELSE StrBody(w, i + 6, Append(acc, u))
         ELSE IF SimpleEsc(e) >= 0 THEN StrBody(w, i + 2, Append(acc, SimpleEsc(e)))
         ELSE NoParse
  ELSE LET u == Utf8At(w, i) IN StrBody(w, i + u.n, Append(acc, u.cp))

StringAt(w, i) == IF At0(w, i) = 34 THEN StrBody(w, i + 1, <<>>) ELSE NoParse

IsPrefixAt(w, i, lit) == i + Len(lit) - 1 <= Len(w) /\ SubSeq(w, i, i + Len(lit) - 1) = lit

(***************************************************************************)
(* value, members, elements.  d = nesting depth of the value being read.   *)
(***************************************************************************)
RECURSIVE ValueAt(_, _, _), Members(_, _, _, _), Elems(_, _, _, _)

ValueAt(w, i, d) ==
  LET c == At0(w, i) IN
  CASE c = 123 -> IF d + 1 > MaxNest THEN NoParse
                  ELSE LET j == SkipWs(w, i + 1) IN
                       IF At0(w, j) = 125 THEN Parsed(j + 1, Obj(<<>>)) ELSE Members(w, j, d + 1, <<>>)
    [] c = 91  -> IF d + 1 > MaxNest THEN NoParse
                  ELSE LET j == SkipWs(w, i + 1) IN
                       IF At0(w, j) = 93 THEN Parsed(j + 1, Arr(<<>>)) ELSE Elems(w, j, d + 1, <<>>)
    [] c = 34  -> LET s == StringAt(w, i) IN IF s.ok THEN Parsed(s.j, Str(s.v)) ELSE NoParse
    [] c = 116 -> IF IsPrefixAt(w, i, <<116,114,117,101>>) THEN Parsed(i + 4, Bool(TRUE)) ELSE NoParse
    [] c = 102 -> IF IsPrefixAt(w, i, <<102,97,108,115,101>>) THEN Parsed(i + 5, Bool(FALSE)) ELSE NoParse
    [] c = 110 -> IF IsPrefixAt(w, i, <<110,117,108,108>>) THEN Parsed(i + 4, Null) ELSE NoParse
    [] c = 45 \/ TDig(c) -> LET j == NumberEnd(w, i) IN IF j = 0 THEN NoParse ELSE Parsed(j, Num(SubSeq(w, i, j - 1)))
    [] OTHER   -> NoParse

\* i is at the first byte of a member (white space skipped)
Members(w, i, d, acc) ==
  LET k == StringAt(w, i) IN
  IF ~k.ok THEN NoParse
  ELSE LET c == SkipWs(w, k.j) IN
       IF At0(w, c) # 58 THEN NoParse
       ELSE LET v == ValueAt(w, SkipWs(w, c + 1), d) IN
            IF ~v.ok THEN NoParse
            ELSE LET e  == SkipWs(w, v.j)
                     a2 == Append(acc, Mem(k.v, v.v)) IN
                 IF At0(w, e) = 125 THEN Parsed(e + 1, Obj(a2))
                 ELSE IF At0(w, e) = 44 THEN Members(w, SkipWs(w, e + 1), d, a2)
                 ELSE NoParse

Elems(w, i, d, acc) ==
  LET v == ValueAt(w, i, d) IN
  IF ~v.ok THEN NoParse
  ELSE LET e  == SkipWs(w, v.j)
           a2 == Append(acc, v.v) IN
       IF At0(w, e) = 93 THEN Parsed(e + 1, Arr(a2))
       ELSE IF At0(w, e) = 44 THEN Elems(w, SkipWs(w, e + 1), d, a2)
       ELSE NoParse

\* JSON-text = ws value ws
ParseText(w) ==
  LET v == ValueAt(w, SkipWs(w, 1), 0) IN
  IF v.ok /\ SkipWs(w, v.j) = Len(w) + 1 THEN [ok |-> TRUE, v |-> v.v] ELSE [ok |-> FALSE, v |-> Null]

WellFormed(w) == ParseText(w).ok
=============================================================================
