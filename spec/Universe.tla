------------------------------ MODULE Universe ------------------------------
(***************************************************************************)
(* Bounded universes of abstract JSON values shared by the merge, equality *)
(* and codec models: keys a b c, leaves null 1 1.0 "x" and 23-digit        *)
(* integers, arrays of <= 2 elements, up to three levels of nesting.       *)
(***************************************************************************)
EXTENDS JsonValue

ca == <<97>>  cb == <<98>>  cc == <<99>>
N1   == Num(<<49>>)      \* 1
N10  == Num(<<49,46,48>>)      \* 1.0
NBig == Num(<<49,50,51,52,53,54,55,56,57,48,49,50,51,52,53,54,55,56,57,48,49,50,51,52,53,54,55,56,57,48,49,50,51,52,53,54,55,56,57,48,49,50,51,52,53,54,55,56,57,48,49,50,51,52,53,54,55,56,57,48,49,50,51,52,53,54,55,56,57,48>>)      \* 1234567890123456789012345678901234567890123456789012345678901234567890 (70 digits: longer than any scratch buffer)
NBig2 == Num(<<49,50,51,52,53,54,55,56,57,48,49,50,51,52,53,54,55,56,57,48,49,50,51,52,53,54,55,56,57,48,49,50,51,52,53,54,55,56,57,48,49,50,51,52,53,54,55,56,57,48,49,50,51,52,53,54,55,56,57,48,49,50,51,52,53,54,55,56,57,49>>)      \* the same, last digit 1
SX   == Str(<<120>>)

Leaf  == { Null, N1, N10, SX }
Small == Leaf \cup { Obj(<<>>), Arr(<<>>), Obj(<<Mem(ca, Null)>>), Obj(<<Mem(ca, N1)>>), Obj(<<Mem(cb, SX)>>),
                     Arr(<<Null>>), Arr(<<N1, Obj(<<Mem(ca, Null)>>)>>), NBig,
                     \* arrays of objects one of which has a subset of the other's members (value equality inside arrays)
                     Arr(<<Obj(<<Mem(ca, N1)>>)>>), Arr(<<Obj(<<Mem(ca, N1), Mem(cb, SX)>>)>>) }
ObjsOver(S) == { Obj(<<Mem(ca, x)>>) : x \in S } \cup { Obj(<<Mem(cb, x)>>) : x \in S }
               \cup { Obj(<<Mem(ca, x), Mem(cb, y)>>) : x \in S, y \in S }
               \cup { Obj(<<Mem(cb, x), Mem(ca, y)>>) : x \in S, y \in S }
Mid == Small \cup ObjsOver(Small)
\* three levels of nesting through a member that changes type, wide objects
Top == Mid \cup { Obj(<<Mem(ca, x)>>) : x \in Mid } \cup { Obj(<<Mem(cc, NBig2), Mem(ca, x)>>) : x \in Mid }
       \cup { Arr(<<x>>) : x \in ObjsOver(Leaf) }

U(level) == CASE level = 1 -> Small [] level = 2 -> Mid [] OTHER -> Top

=============================================================================
