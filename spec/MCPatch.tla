------------------------------ MODULE MCPatch ------------------------------
(***************************************************************************)
(* Bounded universe for Patch6902 and the emitter of direction A (replay): *)
(* every transition of the model is printed as one JSON line that the Go   *)
(* replayer executes against the real library (prefix by prefix).          *)
(*                                                                         *)
(* The operation universe is generated FROM THE CURRENT DOCUMENT: every    *)
(* resolvable pointer plus the near-misses the properties list (absent     *)
(* member, names that need ~0/~1, index = len, len+1, "-", negative        *)
(* indices, a non-numeric token on an array, a child of a scalar, an       *)
(* absent ancestor).  Cases the properties place outside their domain are  *)
(* recognised by the spec itself (result "dc"): such a step ends the run,  *)
(* and the replayer does not compare its result.                           *)
(***************************************************************************)
EXTENDS Patch6902, Json

CONSTANTS
  SeedIds,      \* subset of DOMAIN SeedTable
  OptIds,       \* subset of DOMAIN OptTable
  ValIds,       \* subset of DOMAIN ValTable: values for add/replace/test at step 1
  ValIds2,      \* the same for later steps (smaller, keeps depth 2+ affordable)
  MaxOps,       \* depth bound (a conjunct of Next, not a constraint)
  OpKinds,      \* subset of {"add","remove","replace","move","copy","test"}
  WideDepth,    \* steps 1..WideDepth use the full near-miss set, later steps a reduced one
  EmitOn        \* TRUE: print every transition

(***************************************************************************)
(* Code points and small values.                                           *)
(***************************************************************************)
ca == <<97>>   cb == <<98>>   cc == <<99>>   cd == <<100>>  ce == <<101>>
ck == <<107>>  cq == <<113>>  cr == <<114>>  cs == <<115>>  cx == <<120>>  cy == <<121>>  cz == <<122>>
N1    == Num(<<49>>)      \* 1
N2    == Num(<<50>>)      \* 2
N3    == Num(<<51>>)      \* 3
N10   == Num(<<49,46,48>>)      \* 1.0
NBig == Num(<<49,50,51,52,53,54,55,56,57,48,49,50,51,52,53,54,55,56,57,48,49,50,51,52,53,54,55,56,57,48,49,50,51,52,53,54,55,56,57,48,49,50,51,52,53,54,55,56,57,48,49,50,51,52,53,54,55,56,57,48,49,50,51,52,53,54,55,56,57,48>>)      \* 1234567890123456789012345678901234567890123456789012345678901234567890 (70 digits: longer than any scratch buffer)
NE400 == Num(<<49,101,52,48,48>>)      \* 1e400
NNeg0 == Num(<<45,48>>)      \* -0
N1E2  == Num(<<49,69,43,50>>)      \* 1E+2
SS    == Str(cs)
SLt   == Str(<<60>>)                       \* "<"

SeedTable == <<
  \* 1: four members in non-sorted order, a three-element array of distinct elements with a nested
  \*    container, a nested object, a null member
  Obj(<< Mem(cb, N1),
         Mem(ca, Arr(<<N1, N2, Obj(<<Mem(cx, Null)>>)>>)),
         Mem(cd, Obj(<<Mem(cz, SS), Mem(cy, N10)>>)),
         Mem(cc, Null) >>),
  \* 2: array root; member names that need ~1 and ~0; literals; "<"; a null element
  Arr(<< Obj(<<Mem(<<97,47,98>>, N1), Mem(<<109,126,110>>, N2)>>),
         Arr(<<NE400, NNeg0>>),
         SLt,
         Null >>),
  \* 3: a digit-named member, a member called "-", a member called "~1", nesting, a 23-digit integer
  Obj(<< Mem(<<48>>, Obj(<<Mem(<<45>>, N1)>>)),
         Mem(<<126,49>>, Arr(<<Arr(<<>>)>>)),
         Mem(ck, NBig) >>),
  \* 4: three levels of objects, an empty array, 1E+2
  Obj(<< Mem(ca, Obj(<<Mem(cb, Obj(<<Mem(cc, N1E2)>>))>>)),
         Mem(ce, Arr(<<>>)) >>),
  \* 5: small documents for deep runs
  Obj(<< Mem(ca, Arr(<<N1, Null>>)), Mem(cb, Obj(<<>>)) >>),
  Arr(<< N1, Obj(<<Mem(ca, Null), Mem(cb, N10)>>) >>),            \* 6: (a null member that is NOT the last one of its object)
  \* 7: strings and names with HTML-sensitive and other awkward characters (C12, C15)
  Obj(<< Mem(<<107,8233>>, N1),                                  \* a member NAME with U+2029 and nothing else to escape
         Mem(<<60,107>>, Str(<<38,62>>)),
         Mem(<<110,10,7>>, N2),                                    \* a member NAME with control characters and nothing else to escape
         Mem(ca, Obj(<<Mem(ck, SLt)>>)),
         Mem(cb, Arr(<<Str(<<8232>>), Str(<<34,92,1>>), Str(<<128512>>), Str(<<8361, 8744, 8233>>)>>)) >>),   \* U+20A9 U+2228: UTF-8 E2 xx A9 / A8
  \* 8, 9: empty roots
  Obj(<<>>),
  Arr(<<>>),
  \* 10: small, members in non-sorted order, a value whose size depends on escaping ("<") and
  \*     one whose size depends on compaction ([1,2]); two copies cross a limit only together
  Obj(<< Mem(cb, N1), Mem(ca, Obj(<<Mem(cd, SLt), Mem(cc, Arr(<<N1, N2>>))>>)) >>),
  \* 11: array of three distinct elements under a root array (index arithmetic at depth 2)
  Arr(<< Arr(<<N1, N2, N3>>), Obj(<<Mem(ck, N10)>>) >>)
>>

ValTable == <<
  Null, N1, N10, SS, SLt, Obj(<<>>), Arr(<<>>), Arr(<<Null>>), Obj(<<Mem(ca, Null)>>),
  Obj(<<Mem(cb, Arr(<<N1>>))>>), Bool(TRUE), N2, Arr(<<NE400, Str(<<8361>>)>>)
>>

O(neg, limit, allow, ensure, esc) == [neg |-> neg, limit |-> limit, allow |-> allow, ensure |-> ensure, esc |-> esc]
OptTable == <<
  O(TRUE,  0, FALSE, FALSE, TRUE),     \* 1  defaults
  O(FALSE, 0, FALSE, FALSE, TRUE),     \* 2  negative indices off
  O(TRUE,  0, TRUE,  FALSE, TRUE),     \* 3  allow missing on remove
  O(FALSE, 0, TRUE,  FALSE, TRUE),     \* 4
  O(TRUE,  0, FALSE, TRUE,  TRUE),     \* 5  ensure path
  O(FALSE, 0, FALSE, TRUE,  TRUE),     \* 6
  O(TRUE,  0, TRUE,  TRUE,  FALSE),    \* 7  everything on, escaping off
  O(TRUE,  0, FALSE, FALSE, FALSE),    \* 8  escaping off
  O(TRUE,  7, FALSE, FALSE, TRUE),     \* 9  copy limits
  O(TRUE,  12, FALSE, FALSE, FALSE),   \* 10
  O(FALSE, 20, TRUE, TRUE, TRUE)       \* 11
>>

Vals(step) == { ValTable[i] : i \in (IF step = 1 THEN ValIds ELSE ValIds2) }

(***************************************************************************)
(* Pointers generated from the current document.                           *)
(***************************************************************************)
NegTok(k) == <<45>> \o NatCps(k)

NearTokens(v, Wide) ==
  CASE v.t = "obj" -> IF Wide THEN { cq, <<113,47,114>>, <<113,126,114>>, <<55>> } ELSE { cq, <<113,47,114>> }
    [] v.t = "arr" -> LET n == Len(v.e) IN
                      IF Wide THEN { NatCps(n), NatCps(n+1), <<45>>, NegTok(1), NegTok(n), NegTok(n+1), NegTok(n+2), cx }
                      ELSE { NatCps(n), NatCps(n+1), <<45>>, NegTok(1), NegTok(n+1), NegTok(n+2) }
    [] OTHER -> { cq }

\* pointers that resolve, pointers one token past a node, and an absent ancestor
Exist(d)      == Paths(d)
Near(d, W)    == UNION { { p \o <<t>> : t \in NearTokens(At(d, p), W) } : p \in Paths(d) }
Deep(d, W)    == { p \o <<cq, cr>> : p \in { q \in Paths(d) : Len(q) <= 1 /\ At(d, q).t = "obj" } }
                 \cup (IF W THEN { p \o <<NatCps(7), cr>> : p \in { q \in Paths(d) : At(d, q).t = "arr" } } ELSE {})
                 \* below a scalar: the parent location cannot be reached
                 \cup (IF W THEN { p \o <<cq, cr>> : p \in { q \in Paths(d) : Len(q) <= 2 /\ At(d, q).t \in {"num", "str", "bool"} } } ELSE {})
\* EnsurePathExistsOnAdd: chains of missing parents - object->object, object->array (numeric or "-"
\* next token), array->object with padding, new array with padding, names that need ~1 / ~0
EnsureTails(v) ==
  CASE v.t = "obj" -> { <<cq, <<48>>>>, <<cq, <<45>>>>, <<cq, <<50>>>>, <<cq, cr, cs>>, <<cq, <<50>>, cr>>,
                        <<<<113,47,114>>, <<109,126,110>>>>, <<cq, <<48>>, <<49>>>>,
                        <<<<48>>, cr>>, <<<<55>>, <<45>>>>, <<<<55>>, <<48>>, cr>> }      \* a missing member whose NAME is a number
    [] v.t = "arr" -> LET n == Len(v.e) IN
                      { <<NatCps(n), cr>>, <<NatCps(n+2), cr>>, <<NatCps(n+1), <<49>>>>, <<NatCps(n), <<45>>>> }
    [] v.t = "null" -> { <<cr>>, <<<<48>>>> }      \* through a null: outside C14's domain (the result is not compared; order and panics are)
    [] OTHER -> {}
EnsurePtrs(d) == UNION { { p \o t : t \in EnsureTails(At(d, p)) } : p \in { q \in Paths(d) : Len(q) <= 2 } }

AllPtrs(d, W) == Exist(d) \cup Near(d, W) \cup Deep(d, W)
BadSources(d, W) == { p \in Near(d, W) : Len(p) <= 2 } \cup { p \in Deep(d, W) : Len(p) <= 2 }

\* an equal value with its members in another order (a test must still pass)
Reordered(v) ==
  IF v.t = "obj" /\ Len(v.m) >= 2 THEN Obj([i \in 1..Len(v.m) |-> v.m[Len(v.m) + 1 - i]]) ELSE v

TestValues(d, p, step) ==
  Vals(step) \cup (IF p \in Paths(d) THEN { At(d, p), Reordered(At(d, p)) } ELSE {})

OpsOf(d, step) ==
  LET W    == step <= WideDepth
      ptrs == AllPtrs(d, W) \cup (IF opts.ensure /\ W THEN EnsurePtrs(d) ELSE {})
      good == Exist(d)
      bad  == BadSources(d, W)
      few  == { p \in ptrs : Len(p) = 1 }          \* destinations tried with a failing source
      T(p) == PtrStr(p)
  IN
  (IF "add" \in OpKinds THEN { [op |-> "add", path |-> T(p), value |-> x] : p \in ptrs, x \in Vals(step) } ELSE {})
  \cup (IF "remove" \in OpKinds THEN { [op |-> "remove", path |-> T(p)] : p \in ptrs } ELSE {})
  \cup (IF "replace" \in OpKinds THEN { [op |-> "replace", path |-> T(p), value |-> x] : p \in ptrs, x \in Vals(step) } ELSE {})
  \cup (IF "move" \in OpKinds THEN { [op |-> "move", from |-> T(f), path |-> T(p)] : f \in good, p \in ptrs }
                                  \cup { [op |-> "move", from |-> T(f), path |-> T(p)] : f \in bad, p \in few } ELSE {})
  \cup (IF "copy" \in OpKinds THEN { [op |-> "copy", from |-> T(f), path |-> T(p)] : f \in good, p \in ptrs }
                                  \cup { [op |-> "copy", from |-> T(f), path |-> T(p)] : f \in bad, p \in few } ELSE {})
  \cup (IF "test" \in OpKinds THEN UNION { { [op |-> "test", path |-> T(p), value |-> x] : x \in TestValues(d, p, step) } : p \in ptrs } ELSE {})

(***************************************************************************)
(* The model.                                                              *)
(***************************************************************************)
\* ids above 11 enumerate EVERY combination of the four booleans with the limits 0, 1, 5 (C04, C08)
OptOf(i) ==
  IF i <= Len(OptTable) THEN OptTable[i]
  ELSE LET k == i - Len(OptTable) - 1 IN
       O(k % 2 = 1, (<<0, 1, 5>>)[((k \div 16) % 3) + 1], (k \div 2) % 2 = 1, (k \div 4) % 2 = 1, (k \div 8) % 2 = 1)
MCInit == \E s \in SeedIds, o \in OptIds : PInit(SeedTable[s], OptOf(o))

MCNext ==
  /\ status = "run"
  /\ Len(ops) < MaxOps
  /\ \E op \in OpsOf(doc, Len(ops) + 1) : Step(op)      \* a don't-care step is taken too (status "dc" ends the run): the
                                                           \* replayer executes it for everything but the comparison of results

MCSpec == MCInit /\ [][MCNext]_pvars


\* one line per transition; always TRUE
Emit ==
  IF EmitOn THEN
    PrintT(ToJson([ fam |-> "patch", seed |-> seed, opts |-> opts, ops |-> ops', lab |-> lab',
                    status |-> status', cls |-> cls', doc |-> doc',
                    lo |-> copied'.lo, hi |-> copied'.hi, skipped |-> skipped' ]))
  ELSE TRUE

\* pointer lemma over everything the model ever generates
PtrRoundTrip == \A p \in AllPtrs(doc, TRUE) : ParsePointer(PtrStr(p)) = p
=============================================================================
