------------------------------ MODULE History ------------------------------
(***************************************************************************)
(* Calls are pure (C09) and safe for concurrent use (C10).                 *)
(*                                                                         *)
(* The public API is a set of CALLS over caller-owned buffers (documents,  *)
(* patch texts) and decoded Patch values that are shared by many calls.    *)
(* The contract: the result of a call is a function of its arguments only  *)
(* (Result below, built from PatchOps, Merge7396, Equal), and no call      *)
(* changes any buffer or any decoded Patch.  The machine below takes calls *)
(* one at a time - sequentially for C09 (all histories up to a length), or *)
(* on behalf of several processes for C10 (every call is one atomic step   *)
(* at this level; all interleavings of the processes' programs).  History  *)
(* independence is then the statement that `results` depends only on the   *)
(* calls, which TLC checks as ResultIsFunctionOfCall over every reachable  *)
(* history, and the replayer checks on the real code.                      *)
(***************************************************************************)
EXTENDS PatchOps, Merge7396, Equal, Json, TLC

CONSTANTS MaxCalls,      \* length of a history / total number of calls of all processes
          Procs,         \* 1 = sequential histories (C09); n > 1 = n processes (C10)
          CallSet,       \* "small" | "full"
          EmitOn

ca == <<97>>  cb == <<98>>  cc == <<99>>  cd == <<100>>  ce == <<101>>  cx == <<120>>
N1 == Num(<<49>>)  N2 == Num(<<50>>)
Bad == [t |-> "malformed"]            \* a buffer whose text is not JSON

\* caller-owned buffers
DocTable == <<
  Obj(<<Mem(ca, Arr(<<N1, Null>>)), Mem(cb, Obj(<<>>))>>),           \* 1
  Arr(<<N1, Obj(<<Mem(ca, Null)>>)>>),                                \* 2
  Obj(<<>>),                                                          \* 3
  Bad,                                                                \* 4  {"a":
  Obj(<<Mem(cx, Str(<<60>>)), Mem(ca, N1)>>),                         \* 5  strings that need HTML escaping
  \* 6, 7: numbers that differ only beyond float64 precision / only in spelling, and one outside the float64 range
  Obj(<<Mem(ca, N1), Mem(cb, Num(<<49,50,51,52,53,54,55,56,57,48,49,50,51,52,53,54,55,56,57,48,49,50,51>>)), Mem(ce, Num(<<49,101,52,48,48>>))>>),
  Obj(<<Mem(ca, Num(<<49,46,48>>)), Mem(cb, Num(<<49,50,51,52,53,54,55,56,57,48,49,50,51,52,53,54,55,56,57,48,49,50,52>>)), Mem(ce, Num(<<49,101,52,48,48>>))>>),
  \* 8: a member name that occurs twice (outside the domain of the operation semantics: the RESULT of a call on it is not
  \*    specified - but it is still a function of the arguments: the same bytes every time)
  Obj(<<Mem(ca, N1), Mem(cb, N2), Mem(cc, N1), Mem(cd, N2), Mem(ce, N1), Mem(ca, N2)>>) >>
\* RFC 6902 patches: operation sequences, or Bad
P(s) == [ok |-> TRUE, ops |-> s, dc |-> FALSE]
PX(s) == [ok |-> TRUE, ops |-> s, dc |-> TRUE]     \* a patch whose RESULT the reference does not define (purity still is)
PatchTable == <<
  P(<< [op |-> "add", path |-> <<47,99>>, value |-> N1] >>),                                              \* 1 add /c 1
  P(<< [op |-> "copy", from |-> <<47,97>>, path |-> <<47,100>>],
       [op |-> "test", path |-> <<47,100>>, value |-> Arr(<<N1, Null>>)] >>),                             \* 2 copy /a -> /d ; test /d [1,null]
  P(<< [op |-> "remove", path |-> <<47,122,122>>] >>),                                                   \* 3 remove /zz (fails)
  [ok |-> FALSE, ops |-> <<>>, dc |-> FALSE],                                                                           \* 4 [{"op":
  P(<< [op |-> "add", path |-> <<47,97,47,45>>, value |-> Obj(<<Mem(<<107>>, Arr(<<N1, N2>>))>>)],
       [op |-> "move", from |-> <<47,97,47,48>>, path |-> <<47,109>>] >>),                                \* 5 add /a/- {"k":[1,2]} ; move /a/0 -> /m
  P(<< [op |-> "test", path |-> <<47,97>>, value |-> N2],
       [op |-> "add", path |-> <<47,113>>, value |-> N1] >>),                                            \* 6 test /a 2 ; add /q 1
  P(<< [op |-> "test", path |-> <<47>>, value |-> Obj(<<Mem(ca, Arr(<<N1, Null>>)), Mem(cb, Obj(<<>>))>>)] >>),  \* 7 test "/" ... : an empty
                                      \* reference token is outside C01's domain - its RESULT is not specified, purity still is
  P(<< [op |-> "copy", from |-> <<47,97>>, path |-> <<47,100>>],
       [op |-> "test", path |-> <<47,100>>, value |-> N2] >>),                                           \* 8 copy /a -> /d (8 bytes) ; test /d 2 (fails AFTER the copy)
  P(<< [op |-> "add", path |-> <<>>, value |-> Null] >>),                                                 \* 9 add "" null: the root becomes null (result unspecified;
                                                                                                          \*   in the library the final encoding step fails)
  P(<< [op |-> "add", path |-> <<47,107,126,49,108,126,48,109>>, value |-> N1],
       [op |-> "copy", from |-> <<47,107,126,49,108,126,48,109>>, path |-> <<47,110,126,48,126,49>>],
       [op |-> "test", path |-> <<47,110,126,48,126,49>>, value |-> N1] >>),                          \* 10 tokens that need ~1 / ~0 decoding: /k~1l~0m, /n~0~1
  P(<< [op |-> "add", path |-> <<47,108>>, value |-> Arr(<<>>)],
       [op |-> "add", path |-> <<47,108,47,45>>, value |-> Num(<<49,101,52,48,48>>)],
       [op |-> "add", path |-> <<47,111>>, value |-> Obj(<<Mem(<<110>>, N1)>>)],
       [op |-> "move", from |-> <<47,111,47,110>>, path |-> <<47,109>>] >>),
  PX(<< [op |-> "test", path |-> <<47,99>>, nov |-> TRUE],
        [op |-> "add", path |-> <<47,113>>, value |-> N1] >>) >>                                          \* 12 a test operation WITHOUT a value member (what it compares with is not stated)                            \* 11 later operations edit INSIDE values an earlier operation of
                                                                                                          \*    the same patch inserted: add /l [] ; add /l/- 1e400 ; add /o {"n":1} ; move /o/n -> /m
\* merge patches
MergeTable == <<
  Obj(<<Mem(ca, Null), Mem(cc, Obj(<<Mem(cd, N1)>>))>>),              \* 1 {"a":null,"c":{"d":1}}
  Obj(<<Mem(cc, Obj(<<Mem(cd, Null), Mem(ce, N2)>>))>>),              \* 2 {"c":{"d":null,"e":2}}
  Arr(<<N1>>),                                                        \* 3 [1]
  Bad >>                                                              \* 4
\* the option values are caller-owned too: ONE ApplyOptions value per id is shared by every call that names it
Opt(k) == IF k = 1 THEN [neg |-> TRUE, limit |-> 0, allow |-> FALSE, ensure |-> FALSE, esc |-> TRUE]
          ELSE IF k = 2 THEN [neg |-> FALSE, limit |-> 0, allow |-> TRUE, ensure |-> TRUE, esc |-> FALSE]
          ELSE [neg |-> TRUE, limit |-> 12, allow |-> FALSE, ensure |-> FALSE, esc |-> TRUE]      \* 3: a copy-size limit: 8 <= 12 < 16

C2(api, a, b)    == [api |-> api, a |-> a, b |-> b, o |-> 1]
C3(api, a, b, o) == [api |-> api, a |-> a, b |-> b, o |-> o]

SmallCalls ==
     { C3("Apply", d, p, 1) : d \in {1, 2}, p \in {1, 2, 3} }
  \cup { C3("Apply", 1, 2, 2), C3("Apply", 4, 1, 1), C3("ApplyIndent", 1, 5, 1), C3("Apply", 1, 7, 1) }
  \cup { C3("Apply", 1, 2, 3), C3("Apply", 1, 8, 3) }      \* under the limit: a copy that fits; a copy followed by a failing test
  \cup { C3("Apply", 1, 9, 1), C3("Apply", 1, 10, 1), C3("Apply", 3, 10, 2), C3("Apply", 1, 11, 1), C3("Apply", 3, 11, 1) }
  \cup { C3("Apply", 1, 12, 1), C3("Apply", 2, 12, 2) }
  \cup { C2("CreateMergePatch", 6, 7), C2("CreateMergePatch", 7, 6), C2("Equal", 6, 7) }
  \cup { C3("Apply", 8, 1, 1), C3("ApplyIndent", 8, 5, 1) }
  \cup { C2("DecodePatch", 4, 0), C2("DecodePatch", 2, 0) }
  \cup { C2("MergePatch", 1, 1), C2("MergePatch", 1, 4), C2("MergePatch", 3, 2) }
  \cup { C2("MergeMergePatches", 1, 2), C2("CreateMergePatch", 1, 3), C2("CreateMergePatch", 1, 4) }
  \cup { C2("Equal", 1, 1), C2("Equal", 1, 2), C2("Equal", 4, 4) }
FullCalls == SmallCalls
  \cup { C3("Apply", d, p, o) : d \in {1, 2, 3, 5}, p \in {1, 2, 3, 5, 6}, o \in {1, 2} }
  \cup { C3("ApplyIndent", d, p, 1) : d \in {1, 2, 5}, p \in {1, 2} }
  \cup { C2("DecodePatch", p, 0) : p \in 1..12 } \cup { C2("MergePatch", 6, 1), C2("MergePatch", 7, 2) } \cup { C3("Apply", 2, 7, 1), C3("Apply", 5, 7, 2) }
  \cup { C2("MergePatch", d, m) : d \in {1, 3, 4, 5}, m \in 1..4 }
  \cup { C2("MergeMergePatches", m, n) : m \in {1, 2}, n \in 1..4 }
  \cup { C2("CreateMergePatch", d, e) : d \in {1, 3, 5, 2}, e \in {1, 3, 5} }
  \cup { C2("Equal", d, e) : d \in {1, 2, 4, 5}, e \in {1, 2, 4} }
Calls == IF CallSet = "small" THEN SmallCalls ELSE FullCalls

(***************************************************************************)
(* The result of a call: a function of its arguments only.                 *)
(*   [ok |-> TRUE, v |-> value] | [ok |-> FALSE, cls |-> error class] |    *)
(*   [ok |-> TRUE, b |-> BOOLEAN] for Equal / DecodePatch acceptance        *)
(***************************************************************************)
Fail(cls) == [ok |-> FALSE, v |-> Null, cls |-> cls, b |-> FALSE]
Val(v)    == [ok |-> TRUE, v |-> v, cls |-> "", b |-> FALSE]
Flag(b)   == [ok |-> TRUE, v |-> Null, cls |-> "", b |-> b]

Result(c) ==
  CASE c.api \in {"Apply", "ApplyIndent"} ->
         LET d == DocTable[c.a]  p == PatchTable[c.b] IN
         IF ~p.ok THEN Fail("BadPatch")
         ELSE IF d.t = "malformed" THEN Fail("BadDoc")
         ELSE IF p.dc THEN Fail("dc")
         ELSE IF ~NoDupKeys(d) THEN Fail("dc")
         ELSE LET r == RunAll(d, p.ops, Opt(c.o), [lo |-> 0, hi |-> 0], 1) IN
              IF r.k = "ok" THEN Val(r.v) ELSE IF r.k = "dc" THEN Fail("dc") ELSE Fail(r.cls)
    [] c.api = "DecodePatch" -> Flag(PatchTable[c.a].ok)
    [] c.api = "MergePatch" ->
         LET d == DocTable[c.a]  m == MergeTable[c.b] IN
         IF d.t = "malformed" \/ m.t = "malformed" THEN Fail("Bad") ELSE Val(MP(d, m))
    [] c.api = "MergeMergePatches" ->
         LET m == MergeTable[c.a]  n == MergeTable[c.b] IN
         IF m.t = "malformed" \/ n.t = "malformed" THEN Fail("Bad") ELSE Val(Compose(m, n))
    [] c.api = "CreateMergePatch" ->
         LET a == DocTable[c.a]  b == DocTable[c.b] IN
         IF a.t = "malformed" \/ b.t = "malformed" THEN Fail("Bad")
         ELSE IF CreateKind(a, b) \in {"obj", "arr"} THEN Val(CreateResult(a, b)) ELSE Fail("Reject")
    [] OTHER -> Flag(EqualVerdict(DocTable[c.a], DocTable[c.b]))

(***************************************************************************)
(* The machine.  bufs / patches are the caller-visible contents; no action *)
(* of the contract changes them.                                           *)
(***************************************************************************)
VARIABLES hist,      \* the calls made so far: [proc, call, result]
          bufs,      \* contents of the caller-owned buffers
          shared     \* contents of the decoded, shared Patch values
hvars == <<hist, bufs, shared>>

InitBufs   == [docs |-> DocTable, merges |-> MergeTable]
InitShared == [i \in 1..Len(PatchTable) |-> PatchTable[i]]

HInit == hist = <<>> /\ bufs = InitBufs /\ shared = InitShared

DoCall(p, c) ==
  /\ hist' = Append(hist, [proc |-> p, call |-> c, result |-> Result(c)])
  /\ UNCHANGED <<bufs, shared>>          \* inputs are never modified

HNext == /\ Len(hist) < MaxCalls
         /\ \E p \in 1..Procs, c \in Calls : DoCall(p, c)
HSpec == HInit /\ [][HNext]_hvars

InputsUnchanged == bufs = InitBufs /\ shared = InitShared
ResultIsFunctionOfCall ==
  \A i, j \in 1..Len(hist) : hist[i].call = hist[j].call => hist[i].result = hist[j].result
\* the compose law holds for the two merge patches of the universe (C07's proviso is met)
UniverseSane == Compatible(MergeTable[1], MergeTable[2])

Emit ==
  IF EmitOn /\ Len(hist') = MaxCalls THEN
    PrintT(ToJson([fam |-> "history", procs |-> Procs,
                   calls |-> [i \in 1..Len(hist') |-> [proc |-> hist'[i].proc, api |-> hist'[i].call.api, a |-> hist'[i].call.a,
                                                       b |-> hist'[i].call.b, o |-> hist'[i].call.o,
                                                       ok |-> hist'[i].result.ok, v |-> hist'[i].result.v,
                                                       cls |-> hist'[i].result.cls, flag |-> hist'[i].result.b]],
                   docs |-> DocTable, merges |-> MergeTable,
                   patches |-> [i \in 1..Len(PatchTable) |-> PatchTable[i]] ]))
  ELSE TRUE
=============================================================================
