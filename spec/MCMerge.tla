------------------------------ MODULE MCMerge ------------------------------
(***************************************************************************)
(* Bounded universe for Merge7396, design-level laws, and the emitter of   *)
(* direction A.  Two machines share the module (constant Mode):            *)
(*   "merge": a document and up to MaxOps merge patches applied one after  *)
(*            the other (C02, C05 merge clause; with two patches also the  *)
(*            composition law of C07)                                      *)
(*   "diff" : a pair (A, B) given to CreateMergePatch (C03)                *)
(***************************************************************************)
EXTENDS Merge7396, Universe, Json, TLC

CONSTANTS Mode, DocLevel, PatchLevel, MaxOps, EmitOn, Part, Parts

VARIABLES doc0, cur, hist, phase
mvars == <<doc0, cur, hist, phase>>

\* partition of the documents over several TLC runs (Part in 0..Parts-1), by a cheap hash
InPart(v) == Parts = 1 \/ (Size(v) + (IF v.t = "obj" THEN Len(v.m) ELSE 0) * 3 + (IF v.t = "arr" THEN 1 ELSE 0)) % Parts = Part

\* array roots for CreateMergePatch: several object elements whose member sets differ (each pair is diffed on its own)
DiffArrs == { Arr(<<Obj(<<Mem(ca, x)>>), Obj(<<Mem(cb, SX)>>)>>) : x \in {N1, N10} }
       \cup { Arr(<<Obj(<<Mem(ca, x), Mem(cb, SX)>>), Obj(<<>>)>>) : x \in {N1, N10} }
       \cup { Arr(<<Obj(<<>>), Obj(<<Mem(ca, N1)>>)>>), Arr(<<Obj(<<Mem(ca, N1)>>), Obj(<<Mem(ca, N1)>>), Obj(<<Mem(cc, SX)>>)>>),
              Arr(<<Obj(<<Mem(ca, N10)>>), Obj(<<Mem(ca, N1)>>), Obj(<<Mem(cc, SX)>>)>>) }

MInit ==
  /\ phase = "start" /\ hist = <<>>
  /\ IF Mode = "merge"
     THEN doc0 \in { d \in U(DocLevel) : d.t # "null" /\ InPart(d) } /\ cur = doc0
     ELSE doc0 \in { d \in U(DocLevel) \cup DiffArrs : InPart(d) } /\ cur = doc0

MNext ==
  /\ Len(hist) < MaxOps
  /\ IF Mode = "merge"
     THEN \E p \in U(PatchLevel) :
            /\ cur.t # "null"                        \* a null document is outside C02's domain
            /\ hist' = Append(hist, p) /\ cur' = MP(cur, p) /\ phase' = "merged"
     ELSE \E b \in U(PatchLevel) \cup (IF doc0 \in DiffArrs THEN DiffArrs ELSE {}) :
            /\ hist' = Append(hist, b)
            /\ LET k == CreateKind(doc0, b) IN
               /\ phase' = k
               /\ cur' = IF k \in {"obj", "arr"} THEN CreateResult(doc0, b) ELSE Null
  /\ UNCHANGED doc0

MSpec == MInit /\ [][MNext]_mvars

Emit ==
  IF EmitOn THEN
    IF Mode = "merge"
    THEN PrintT(ToJson([fam |-> "merge", doc |-> doc0, patches |-> hist', result |-> cur',
                        compat |-> IF Len(hist') = 2 THEN Compatible(hist'[1], hist'[2]) /\ hist'[1].t = "obj" ELSE FALSE,
                        composed |-> IF Len(hist') = 2 /\ Compatible(hist'[1], hist'[2]) /\ hist'[1].t = "obj"
                                     THEN Compose(hist'[1], hist'[2]) ELSE Null ]))
    ELSE PrintT(ToJson([fam |-> "diff", a |-> doc0, b |-> hist'[1], kind |-> phase', patch |-> cur',
                        roundtrip |-> IF phase' = "obj" THEN ~HasNullMember(hist'[1])
                                      ELSE IF phase' = "arr" THEN \A i \in 1..Len(hist'[1].e) : ~HasNullMember(hist'[1].e[i])
                                      ELSE FALSE ]))
  ELSE TRUE

(***************************************************************************)
(* Design-level laws.                                                      *)
(***************************************************************************)
\* C02: a non-object patch replaces the document wholesale and verbatim; arrays are never edited
Wholesale == [][Mode = "merge" => LET p == hist'[Len(hist')] IN p.t # "obj" => cur' = p]_mvars
\* C02: merging twice is merging once
Idempotent == [][Mode = "merge" => JEq(MP(cur', hist'[Len(hist')]), cur')]_mvars
\* the result of a merge never has a null member that the patch put there
NoNullFromPatch ==
  [][Mode = "merge" => LET p == hist'[Len(hist')] IN
       (p.t = "obj" /\ ~HasNullMember(cur)) => ~(\E i \in 1..Len(cur'.m) : cur'.m[i].v.t = "null")]_mvars
\* C05: the reference result satisfies the order predicate that observed results are judged by
RefOrderOK == [][Mode = "merge" => MergeOrderOK(cur, hist'[Len(hist')], cur')]_mvars
\* C07: the composition law, for every document of the universe
ComposeLaw ==
  (Mode = "merge" /\ Len(hist) = 2 /\ hist[1].t = "obj" /\ Compatible(hist[1], hist[2])) =>
     JEq(MP(doc0, Compose(hist[1], hist[2])), cur)
\* C03: round trip, minimality, {} exactly when equal
DiffLaws ==
  (Mode = "diff" /\ phase = "obj") =>
     LET B == hist[1] IN
     /\ IsMinimalPatch(doc0, B, cur)
     /\ (cur.m = <<>>) <=> JEq(doc0, B)
     /\ ~HasNullMember(B) => JEq(MP(doc0, cur), B)
DiffArrLaws ==
  (Mode = "diff" /\ phase = "arr") =>
     \A i \in 1..Len(doc0.e) :
        /\ IsMinimalPatch(doc0.e[i], hist[1].e[i], cur.e[i])
        /\ ~HasNullMember(hist[1].e[i]) => JEq(MP(doc0.e[i], cur.e[i]), hist[1].e[i])
=============================================================================
