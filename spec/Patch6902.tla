----------------------------- MODULE Patch6902 -----------------------------
(***************************************************************************)
(* RFC 6902 application as a state machine: a document, the accumulated    *)
(* copy size and a status are threaded through a sequence of operations,   *)
(* exactly like the interpreter loop of Patch.ApplyIndentWithOptions       *)
(* (v5/patch.go).  The semantics of the operations is in PatchOps.         *)
(***************************************************************************)
EXTENDS PatchOps

(***************************************************************************)
(* The interpreter loop as a state machine.                                *)
(***************************************************************************)
VARIABLES
  seed,     \* the document the run started from (constant during a behaviour)
  opts,     \* options, fixed at Init
  doc,      \* the document "at that moment"
  status,   \* "run" | "err" | "dc"
  cls,      \* error class once status = "err"
  copied,   \* [lo, hi]
  ops,      \* history: the operations taken so far
  lab,      \* label of the last operation
  skipped   \* history: indices (in ops) of the removes that were skipped (C13)

pvars == <<seed, opts, doc, status, cls, copied, ops, lab, skipped>>

PInit(s, o) ==
  /\ seed = s /\ opts = o /\ doc = s /\ status = "run" /\ cls = "" /\ copied = [lo |-> 0, hi |-> 0]
  /\ ops = <<>> /\ lab = "Init" /\ skipped = <<>>

Step(op) ==
  /\ status = "run"
  /\ LET a == ApplyOp(doc, op, opts, copied, NoSz) IN
     /\ ops' = Append(ops, op)
     /\ lab' = a.r.lab
     /\ copied' = a.copied
     /\ status' = IF a.r.k = "ok" THEN "run" ELSE a.r.k
     /\ cls' = a.r.cls
     /\ doc' = IF a.r.k = "ok" THEN a.r.v ELSE doc
     /\ skipped' = IF a.r.k = "ok" /\ a.r.skip THEN Append(skipped, Len(ops) + 1) ELSE skipped
  /\ UNCHANGED <<seed, opts>>

(***************************************************************************)
(* Design-level properties of the reference machine.                       *)
(***************************************************************************)
DocOK == IsContainer(doc) /\ NoDupKeys(doc)

\* C12: while running under a positive limit the accumulated size is within it
CopyBound == (status = "run" /\ opts.limit > 0) => copied.lo <= opts.limit

\* C12: only copy changes the total;  C08: after a failure nothing changes any more
OnlyCopyCounts == [][copied' # copied => ops'[Len(ops')].op = "copy"]_pvars
FirstFailureWins == [][status # "run" => UNCHANGED <<doc, status, cls, copied>>]_pvars

\* C12: the machine refines the copy accounting of CopyAcct.tla (whose bound Apalache proves for all limits and sizes)
CA == INSTANCE CopyAcct WITH Limit <- opts.limit, total <- copied.lo, st <- status,
                             why <- IF cls = "CopyLimit" THEN "CopyLimit" ELSE IF status # "run" THEN "Other" ELSE ""
RefinesCopyAcct == CA!SpecObs

\* C12: a limit of 0 never stops a patch
LimitZeroNeverFails == opts.limit = 0 => cls # "CopyLimit"

\* C01: a passing test, and a skipped remove, leave the document as it is
NoOpSteps == [][(lab' \in {"TestPass", "TestPassAbsent"} \/ Len(skipped') > Len(skipped)) => doc' = doc]_pvars


(***************************************************************************)
(* C13 at design level: the run with AllowMissingPathOnRemove equals the   *)
(* run WITHOUT the option of the same patch minus the skipped removes.     *)
(***************************************************************************)
SkipEquivalent ==
  (opts.allow /\ status # "dc") =>
     LET off == RunAll(seed, OpsOnly(WithoutSkipped(ops, skipped)), [opts EXCEPT !.allow = FALSE],
                       [lo |-> 0, hi |-> 0], 1)
     IN  \/ off.k = "dc"                                   \* outside the stated domain on the other side
         \/ /\ (status = "run") = (off.k = "ok")
            /\ status = "run" => off.v = doc
            /\ status = "err" => off.k = "err"

\* C13: the option forgives nothing but removes
OnlyRemoveForgiven ==
  [][Len(skipped') > Len(skipped) => ops'[Len(ops')].op = "remove"]_pvars

(***************************************************************************)
(* C14 at design level.                                                    *)
(***************************************************************************)
LastOp == ops[Len(ops)]

\* the token path at which the value of a successful add ends up ("-" and negative
\* indices resolved against the parent as it is afterwards)
ResolvedAddPath(d2, toks, neg) ==
  LET par  == Lookup(d2, SubSeq(toks, 1, Len(toks) - 1), neg)
      last == toks[Len(toks)]
  IN  IF par.k # "ok" THEN [k |-> "bad", p |-> <<>>]
      ELSE IF par.v.t = "arr" /\ ParseIndex(last).k = "dash"
           THEN [k |-> "ok", p |-> SubSeq(toks, 1, Len(toks) - 1) \o <<NatCps(Len(par.v.e) - 1)>>]
           ELSE [k |-> "ok", p |-> toks]

EnsureLookup ==
  (Len(ops) > 0 /\ status = "run" /\ opts.ensure /\ LastOp.op = "add" /\ LastOp.path # <<>>) =>
     LET toks == ParsePointer(LastOp.path)
         rp   == ResolvedAddPath(doc, toks, opts.neg)
     IN  /\ rp.k = "ok"
         /\ LET l == Lookup(doc, rp.p, opts.neg) IN l.k = "ok" /\ l.v = LastOp.value

\* an add that succeeds without the option gives the same result with it
EnsureAgrees ==
  [][ (opts.ensure /\ ops'[Len(ops')].op = "add") =>
        LET plain == ApplyOp(doc, ops'[Len(ops')], [opts EXCEPT !.ensure = FALSE], copied, NoSz).r
        IN  plain.k = "ok" => (status' = "run" /\ doc' = plain.v) ]_pvars

\* when parents were created: every location that existed before and is not on the path keeps
\* its value, and everything new is the path, the added value or null padding next to the path
EnsureFrame ==
  [][ (lab' = "AddEnsure") =>
        LET toks == ParsePointer(ops'[Len(ops')].path)
            rp   == ResolvedAddPath(doc', toks, opts.neg)
            T    == rp.p
        IN  /\ rp.k = "ok"
            /\ \A p \in Paths(doc) : ~IsPrefixOf(p, T) => (p \in Paths(doc') /\ At(doc', p) = At(doc, p))
            /\ \A q \in Paths(doc') \ Paths(doc) :
                  \/ IsPrefixOf(q, T)
                  \/ IsPrefixOf(T, q)
                  \/ (At(doc', q) = Null /\ Len(q) >= 1 /\ IsPrefixOf(SubSeq(q, 1, Len(q) - 1), T)) ]_pvars

(***************************************************************************)
(* C05 at design level: what an operation does to the member order of the  *)
(* objects that survive it (objects reached through object members only,   *)
(* so that the same path names the same object before and after).          *)
(***************************************************************************)
ObjOnly(d, p) == \A i \in 0..(Len(p) - 1) : At(d, SubSeq(p, 1, i)).t = "obj"
InSeq(x, s) == \E i \in 1..Len(s) : s[i] = x

OrderPreservedStep(op, d1, d2) ==
  LET dst == IF op.op \in {"add", "replace", "copy", "move"} THEN ParsePointer(op.path) ELSE <<>>
      wholesale(p) == op.op \in {"add", "replace", "copy", "move"} /\ IsPrefixOf(dst, p)
      \* a moved member is created anew at its destination
      movedKey(p) == IF op.op = "move" /\ LET f == ParsePointer(op.from) IN Len(f) >= 1 /\ SubSeq(f, 1, Len(f) - 1) = p
                     THEN <<ParsePointer(op.from)[Len(ParsePointer(op.from))]>> ELSE <<>>
  IN
  \A p \in Paths(d1) \cap Paths(d2) :
     (At(d1, p).t = "obj" /\ At(d2, p).t = "obj" /\ ObjOnly(d1, p) /\ ObjOnly(d2, p) /\ ~wholesale(p)) =>
        LET old == SelectSeq(Keys(At(d1, p)), LAMBDA k : ~InSeq(k, movedKey(p)))
            new == Keys(At(d2, p))
        IN  /\ SelectSeq(old, LAMBDA k : InSeq(k, new)) = SelectSeq(new, LAMBDA k : InSeq(k, old))
            /\ \A i, j \in 1..Len(new) : (InSeq(new[i], old) /\ ~InSeq(new[j], old)) => i < j

OrderPreserved == [][status' = "run" => OrderPreservedStep(ops'[Len(ops')], doc, doc')]_pvars

\* number literals and strings that no operation addresses are carried over: every scalar leaf
\* of the new document is a leaf of the old one or of a value the operation supplied
RECURSIVE Leaves(_)
Leaves(v) ==
  CASE v.t = "obj" -> UNION { Leaves(v.m[i].v) : i \in 1..Len(v.m) }
    [] v.t = "arr" -> UNION { Leaves(v.e[i]) : i \in 1..Len(v.e) }
    [] OTHER -> {v}
LiteralsCarried ==
  [][status' = "run" =>
       LET op == ops'[Len(ops')]
           sup == IF op.op \in {"add", "replace"} THEN Leaves(op.value) ELSE {}
       IN  Leaves(doc') \subseteq (Leaves(doc) \cup sup \cup {Null})]_pvars
=============================================================================
