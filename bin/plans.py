"""Per-property plans: which specification configs are explored and how the real code is bound to them."""
import json, os, re, shutil, subprocess, time
from common import Broken

VERIF = os.path.dirname(os.path.dirname(os.path.abspath(__file__)))
FINDINGS = os.path.join(VERIF, 'known_findings.json')
REPLAYS = os.path.join(os.environ.get('VERIF_OUT', VERIF), 'replays')


def _set(xs):
    return '{' + ','.join(str(x) for x in xs) + '}'


def _sset(xs):
    return '{' + ','.join('"%s"' % x for x in xs) + '}'


ALLKINDS = ['add', 'remove', 'replace', 'move', 'copy', 'test']


def run_A(ctx, module, name, consts, invariants=(), properties=(), simulate=None, timeout=3000, respell=False,
          extra_opt='', exhaustive=True, spec='MCSpec', workers=16, constraint=None, legacy=False, rworkers=None, race=False):
    """Direction A: TLC enumerates (or simulates) behaviours of <module>, every printed transition is replayed."""
    cfg = ctx.write_cfg('run_' + name, spec, consts, invariants=invariants,
                        properties=() if simulate else properties, action_constraint='Emit', constraint=constraint)
    extra = []
    if simulate:
        extra = ['-simulate', 'num=%d' % simulate['num'], '-depth', str(simulate['depth']), '-seed', str(ctx.seed)]
        ctx.exhaustive = False
        workers = simulate.get('workers', 8)
    if not exhaustive:
        ctx.exhaustive = False
    tlc = ctx.tlc_cmd(module, cfg, workers=workers, extra=extra)
    replay = ctx.build('replay', legacy=legacy, race=race)
    tlclog = os.path.join(ctx.scratch, 'tlc_%s.log' % name)
    rargs = [replay, '-prop', ctx.prop, '-seed', str(ctx.seed), '-findings', FINDINGS, '-replays', REPLAYS, '-tlclog', tlclog]
    if respell:
        rargs.append('-respell')
    if extra_opt:
        rargs += ['-opt', extra_opt]
    if rworkers:
        rargs += ['-workers', str(rworkers)]
    renv = dict(ctx.env, GORACE='halt_on_error=1 exitcode=66') if race else ctx.env
    t0 = time.time()
    p1 = subprocess.Popen(['timeout', str(timeout)] + tlc, cwd=ctx.specdir(), env=ctx.env,
                          stdout=subprocess.PIPE, stderr=subprocess.STDOUT)
    p2 = subprocess.Popen(rargs, stdin=p1.stdout, stdout=subprocess.PIPE, stderr=subprocess.PIPE, text=True, env=renv)
    p1.stdout.close()
    out, err = p2.communicate()
    rc1 = p1.wait()
    if p2.returncode == 66 and race:
        # the Go race detector observed a data race in the real execution: that IS the violation of C10
        os.makedirs(REPLAYS, exist_ok=True)
        path = os.path.join(REPLAYS, '%s-race-%s-%d.json' % (ctx.prop, name, ctx.seed))
        json.dump({'property': ctx.prop, 'kind': 'data-race', 'detail': 'the Go race detector reported a data race',
                   'case': {'stage': name, 'module': module, 'constants': consts, 'seed': ctx.seed, 'race_report': err[-6000:]}},
                  open(path, 'w'), indent=1)
        print('VIOLATION property=%s replay=%s' % (ctx.prop, path))
        print('  kind=data-race ' + (err.strip().split('\n')[0] if err.strip() else ''))
        ctx.violations += 1
        ctx.cov['stages'].append({'stage': name, 'data_race': True})
        p1.kill()
        return
    if p2.returncode == 2 and re.search(r'^fatal error: |^runtime: goroutine stack exceeds', err, re.M):
        # the Go runtime killed the process (stack overflow, concurrent map access, ...): recover() cannot catch that.
        # Find the input: run the stage again with a journal, then try the journalled lines one at a time.
        p1.kill()
        culprit = find_crash_input(ctx, name, ['timeout', str(timeout)] + tlc, rargs, renv)
        if culprit is None:
            raise Broken('stage %s: the replayer died with a fatal runtime error that could not be reproduced on a single input: %s'
                         % (name, err[:1500]))
        line, crash = culprit
        os.makedirs(REPLAYS, exist_ok=True)
        import hashlib
        path = os.path.join(REPLAYS, '%s-crash-%s.json' % (ctx.prop, hashlib.sha1(line.encode()).hexdigest()[:12]))
        json.dump({'property': ctx.prop, 'kind': 'crash', 'detail': 'the process died with a fatal runtime error (not recoverable): ' + crash,
                   'case': {'line': json.loads(line), 'stage': name, 'package': 'v4' if legacy else 'v5'}}, open(path, 'w'), indent=1)
        print('VIOLATION property=%s replay=%s' % (ctx.prop, path))
        print('  kind=crash the call killed the process: ' + crash)
        ctx.violations += 1
        ctx.cov['stages'].append({'stage': name, 'fatal_crash': crash})
        return
    if p2.returncode not in (0, 1, 3):
        raise Broken('stage %s: replayer failed (exit %d): %s' % (name, p2.returncode, err[-2000:]))
    log = open(tlclog).read() if os.path.exists(tlclog) else ''
    summ = ctx.absorb_summary(out, name)
    if p2.returncode == 3:       # a hang was reported; TLC's statistics are incomplete
        ctx.cov['stages'].append({'stage': name, 'hang': True})
        return
    if rc1 == 124:
        raise Broken('stage %s: TLC timed out after %ds' % (name, timeout))
    gen, dist = ctx.parse_tlc_log(log, name)
    ctx.cov['states'] += dist
    ctx.cov['transitions'] += summ['counters'].get('transitions', 0)
    ctx.cov['traces_validated_against_impl'] += summ['counters'].get('transitions', 0)
    ctx.cov['stages'].append({'stage': name, 'module': module, 'package': 'legacy root package (staged)' if legacy else 'v5',
                              'direction': 'A (TLC behaviours replayed into the code)',
                              'tlc_states_generated': gen, 'tlc_distinct_states': dist,
                              'transitions_replayed': summ['counters'].get('transitions', 0),
                              'executions_of_real_code': summ['counters'].get('executions', 0),
                              'constants': consts, 'invariants': list(invariants), 'properties': list(properties),
                              'mode': 'simulate' if simulate else 'exhaustive', 'wall_s': round(time.time() - t0, 1)})


def find_crash_input(ctx, name, tlc_cmd, rargs, renv):
    """Re-run a stage with a journal; return (line, first line of the crash message) of an input that alone kills the process."""
    jdir = os.path.join(ctx.scratch, 'journal_' + name)
    os.makedirs(jdir, exist_ok=True)
    p1 = subprocess.Popen(tlc_cmd, cwd=ctx.specdir(), env=ctx.env, stdout=subprocess.PIPE, stderr=subprocess.STDOUT)
    p2 = subprocess.Popen(rargs + ['-journal', jdir], stdin=p1.stdout, stdout=subprocess.PIPE, stderr=subprocess.PIPE, text=True, env=renv)
    p1.stdout.close()
    p2.communicate()
    p1.kill()
    p1.wait()
    single = [a for a in rargs if a != '-respell']
    if '-tlclog' in single:
        i = single.index('-tlclog')
        single = single[:i] + single[i + 2:]
    for f in sorted(os.listdir(jdir)):
        line = open(os.path.join(jdir, f)).read().strip()
        if not line:
            continue
        for extra in ([], ['-respell']):
            p = subprocess.run(single + extra + ['-workers', '1'], input=line + '\n', capture_output=True, text=True, env=renv)
            m = re.search(r'^(fatal error: .*|runtime: goroutine stack exceeds.*)$', p.stderr, re.M)
            if p.returncode == 2 and m:
                return line, m.group(1)
    return None


def A_patch(name, seeds, opts, vals, vals2, maxops, kinds=ALLKINDS, wide=1, invariants=(), properties=(), **kw):
    def run(ctx):
        consts = {'SeedIds': _set(seeds), 'OptIds': _set(opts), 'ValIds': _set(vals), 'ValIds2': _set(vals2),
                  'MaxOps': maxops, 'OpKinds': _sset(kinds), 'WideDepth': wide, 'EmitOn': 'TRUE'}
        run_A(ctx, 'MCPatch', name, consts, invariants=invariants, properties=properties, **kw)
    return run


M_INV = ('ComposeLaw', 'DiffLaws', 'DiffArrLaws')
M_PROPS = ('Wholesale', 'Idempotent', 'NoNullFromPatch', 'RefOrderOK')


def A_merge(name, mode, doclevel, patchlevel, maxops, parts=1, part=0, **kw):
    def run(ctx):
        consts = {'Mode': '"%s"' % mode, 'DocLevel': doclevel, 'PatchLevel': patchlevel, 'MaxOps': maxops,
                  'EmitOn': 'TRUE', 'Part': part if part is not None else ctx.seed % parts, 'Parts': parts}
        run_A(ctx, 'MCMerge', name, consts, invariants=M_INV, properties=M_PROPS, spec='MSpec', **kw)
    return run


def _tlc_last_state(text):
    """(l, bad) of the last state of a TLC error trace."""
    ls = re.findall(r'^/\\ l = (\d+)', text, re.M)
    bads = re.findall(r'^/\\ bad = "(.*)"', text, re.M)
    return (int(ls[-1]) if ls else None), (bads[-1] if bads else None)


def validate_trace(ctx, name, trace_path, index, mode, legacy):
    """Run TLC on one ndjson file against TraceApi; report every rejected trace (up to 20) as a violation."""
    spec = ctx.specdir()
    events = [l for l in open(trace_path).read().split('\n') if l]
    traces = index['traces']
    offset = 0          # number of lines of the original file already consumed
    reported = 0
    states = 0
    rounds = 0
    while offset < len(events) and rounds < 25:
        rounds += 1
        part = 'trace_%s_%d.ndjson' % (name, rounds)
        open(os.path.join(spec, part), 'w').write('\n'.join(events[offset:]) + '\n')
        cfg = ctx.write_cfg('trace_%s_%d' % (name, rounds), 'TSpec',
                            {'TraceFile': '"%s"' % part, 'Mode': '"%s"' % mode, 'MaxDepth': 10000, 'MaxNest': 10000,
                             'Dialect': '"v4"' if legacy else '"v5"'},
                            invariants=('NoMismatch',), postcondition='Accepted')
        p = subprocess.run(['timeout', '3000'] + ctx.tlc_cmd('TraceApi', cfg, workers=1), cwd=spec, env=ctx.env,
                           capture_output=True, text=True)
        out = p.stdout + p.stderr
        m = re.search(r'(\d+) states generated, (\d+) distinct states found', out)
        if m:
            states += int(m.group(2))
        ctx.cov['labels']['TraceEvents_outside_model'] = ctx.cov['labels'].get('TraceEvents_outside_model', 0) + out.count('"GODEC-DC"') + out.count('"GOENC-DC"')
        if 'Invariant NoMismatch is violated' in out:
            l, bad = _tlc_last_state(out)
            if l is None:
                raise Broken('stage %s: cannot read the rejected line from TLC output:\n%s' % (name, out[-1500:]))
            line = offset + l - 1                      # 1-based line of the original file whose event is rejected
            tr = next((t for t in traces if t['first'] <= line <= t['last']), None)
            if tr is None:
                raise Broken('stage %s: rejected line %d belongs to no trace' % (name, line))
            report_trace_violation(ctx, name, tr, bad, events[tr['first'] - 1:tr['last']], line - tr['first'] + 1, legacy, mode)
            reported += 1
            offset = tr['last']                        # continue with the next trace
            continue
        if re.search(r'^Error:|java\.lang\.|Parsing or semantic analysis failed', out, re.M):
            if 'Postcondition Accepted' in out and 'is false' in out:
                raise Broken('stage %s: the trace was not consumed to its end (no event matched):\n%s' % (name, out[-1500:]))
            raise Broken('stage %s: TLC failed on the trace specification:\n%s' % (name, out[-2000:]))
        break
    return states, reported


def report_trace_violation(ctx, name, tr, bad, lines, at, legacy, mode='value'):
    """A trace recorded from the real code is not a behaviour of the specification."""
    sig = {'fam': 'trace-' + tr['fam'], 'kind': bad or '', 'lab': '', 'lastop': ''}
    for f in json.load(open(FINDINGS))['findings']:
        if f.get('status') == 'open' and f.get('property') == ctx.prop and \
                all(re.fullmatch(v, sig.get(k, '')) for k, v in f.get('match', {}).items()):
            ctx.known[f['id']] = ctx.known.get(f['id'], 0) + 1
            print('KNOWN-FINDING: property=%s %s: %s' % (ctx.prop, f['id'], f['what']))
            return
    os.makedirs(REPLAYS, exist_ok=True)
    import hashlib
    body = {'property': ctx.prop, 'kind': 'trace-rejected', 'detail': bad, 'sig': sig,
            'case': dict(tr, package='v4' if legacy else 'v5', mode=mode, rejected_event=at, events=[json.loads(x) for x in lines])}
    h = hashlib.sha1(json.dumps(body, sort_keys=True).encode()).hexdigest()[:12]
    path = os.path.join(REPLAYS, '%s-%s.json' % (ctx.prop, h))
    json.dump(body, open(path, 'w'), indent=1)
    print('VIOLATION property=%s replay=%s' % (ctx.prop, path))
    print('  kind=trace-rejected (%s, event %d of its trace): %s' % (tr['fam'], at, bad))
    ctx.violations += 1
    vk = ctx.cov.setdefault('violation_kinds', {})
    vk['trace:' + (bad or '')] = vk.get('trace:' + (bad or ''), 0) + 1


def B_trace(name, fam, n, maxops=10, mode='value', legacy=False, plain=False, case=None):
    """Direction B: record traces from the real code, let TLC validate them against TraceApi."""
    def run(ctx):
        t0 = time.time()
        rec = ctx.build('record', legacy=legacy)
        spec = ctx.specdir()
        trace = os.path.join(ctx.scratch, 'rec_%s.ndjson' % name)
        idx = os.path.join(ctx.scratch, 'rec_%s.index.json' % name)
        args = [rec, '-fam', fam, '-n', str(n), '-seed', str(ctx.seed), '-out', trace, '-index', idx, '-maxops', str(maxops)]
        if plain:
            args.append('-plain')
        if mode == 'bytes':
            args.append('-bytes')
        if case:
            args += ['-case', case]
        p = subprocess.run(args, env=ctx.env, capture_output=True, text=True)
        if p.returncode != 0:
            raise Broken('stage %s: the recorder failed: %s' % (name, (p.stderr or p.stdout)[-1500:]))
        index = json.load(open(idx))
        if os.environ.get('VERIF_CORRUPT_TRACE') == name:
            # binding demonstration (development aid, never set by a registered command): damage one recorded field
            # and see the trace rejected.  bytes mode: the first output byte; otherwise the first "ok" flag.
            lines = open(trace).read().split('\n')
            for i, l in enumerate(lines):
                if mode == 'bytes' and '"bytes":[1' in l:
                    lines[i] = l.replace('"bytes":[1', '"bytes":[88,1', 1); break
                if mode != 'bytes' and '"ok":true' in l:
                    lines[i] = l.replace('"ok":true', '"ok":false', 1); break
                if mode != 'bytes' and '"ev":"goenc"' in l and '"stream_ok":true' in l:
                    lines[i] = l.replace('"stream_ok":true', '"stream_ok":false', 1); break
                if mode != 'bytes' and '"ev":"godec"' in l and '"err":false' in l:
                    lines[i] = l.replace('"err":false', '"err":true', 1); break
            open(trace, 'w').write('\n'.join(lines))
        states, reported = validate_trace(ctx, name, trace, index, mode, legacy)
        ctx.exhaustive = False
        ctx.cov['states'] += states
        ctx.cov['transitions'] += index['lines']
        ctx.cov['traces_validated_against_impl'] += len(index['traces'])
        ctx.cov['evaluations'] += index['lines']
        ctx.cov['distinct_nontrivial'] += len(index['traces'])
        ctx.cov['labels']['TraceEvents_' + fam] = ctx.cov['labels'].get('TraceEvents_' + fam, 0) + index['lines']
        if index['traces'] and len(ctx.cov['samples']) < 8:
            t = index['traces'][len(index['traces']) // 2]
            ctx.cov['samples'].append({'recorded_trace': {k: v for k, v in t.items() if k not in ('first', 'last')}})
        ctx.cov['stages'].append({'stage': name, 'module': 'TraceApi', 'package': 'legacy root package (staged)' if legacy else 'v5',
                                  'direction': 'B (traces recorded from the code validated by TLC)', 'family': fam,
                                  'traces': len(index['traces']), 'events': index['lines'], 'rejected_traces': reported,
                                  'comparison': mode, 'tlc_states': states, 'wall_s': round(time.time() - t0, 1)})
    return run


def T_only(module, name, consts, invariants=(), properties=(), spec='MCSpec', timeout=3000):
    """TLC on the specification alone (design level): no emission, nothing is executed on the code."""
    def run(ctx):
        t0 = time.time()
        cfg = ctx.write_cfg('tlc_' + name, spec, consts, invariants=invariants, properties=properties)
        p = subprocess.run(['timeout', str(timeout)] + ctx.tlc_cmd(module, cfg), cwd=ctx.specdir(), env=ctx.env, capture_output=True, text=True)
        if p.returncode == 124:
            raise Broken('stage %s: TLC timed out after %ds' % (name, timeout))
        gen, dist = ctx.parse_tlc_log(p.stdout + p.stderr, name)
        ctx.cov['states'] += dist
        ctx.cov['stages'].append({'stage': name, 'module': module, 'direction': 'TLC on the specification only', 'constants': consts,
                                  'invariants': list(invariants), 'properties': list(properties), 'tlc_states_generated': gen,
                                  'tlc_distinct_states': dist, 'wall_s': round(time.time() - t0, 1)})
    return run


def T_depth(name, maxlen, sigma='tiny'):
    return T_only('MCScanner', name, {'MaxLen': maxlen, 'SigmaId': '"%s"' % sigma, 'EmitOn': 'FALSE', 'MaxDepth': 3, 'MaxNest': 3},
                  invariants=('ScanOK', 'LanguageEq', 'ErrorAbsorbs', 'TransducersOK'), spec='SSpec')


def P_apalache(name, module, inv, timeout=600, init=None, length=0):
    """An unbounded lemma discharged by Apalache (symbolic, all integers): design level, nothing is executed on the code."""
    def run(ctx):
        t0 = time.time()
        d = os.path.join(ctx.scratch, 'apalache_' + name)
        os.makedirs(d, exist_ok=True)
        for f in os.listdir(ctx.specdir()):
            if f.endswith('.tla'):
                shutil.copy(os.path.join(ctx.specdir(), f), d)
        p = subprocess.run(['timeout', str(timeout), 'apalache-mc', 'check', '--length=%d' % length, '--inv=' + inv] +
                           (['--init=' + init] if init else []) + [module + '.tla'],
                           cwd=d, env=ctx.env, capture_output=True, text=True)
        out = p.stdout + p.stderr
        if 'EXITCODE: OK' not in out or 'The outcome is: NoError' not in out:
            raise Broken('stage %s: Apalache did not discharge %s!%s:\n%s' % (name, module, inv, out[-1500:]))
        ctx.cov['stages'].append({'stage': name, 'module': module, 'direction': 'Apalache, unbounded integers', 'invariant': inv,
                                  'init': init or 'Init', 'length': length, 'outcome': 'NoError', 'wall_s': round(time.time() - t0, 1)})
    return run


def P_tlaps(name, module, timeout=900):
    """A theorem discharged by the TLA+ proof system (all obligations of the module must be proved): design level."""
    def run(ctx):
        t0 = time.time()
        d = os.path.join(ctx.scratch, 'tlaps_' + name)
        os.makedirs(d, exist_ok=True)
        for f in os.listdir(ctx.specdir()):
            if f.endswith('.tla'):
                shutil.copy(os.path.join(ctx.specdir(), f), d)
        p = subprocess.run(['timeout', str(timeout), 'tlapm', '--threads', '8', module + '.tla'], cwd=d, env=ctx.env, capture_output=True, text=True)
        out = p.stdout + p.stderr
        m = re.search(r'All (\d+) obligations proved', out)
        if not m:
            raise Broken('stage %s: tlapm did not prove every obligation of %s:\n%s' % (name, module, out[-1500:]))
        ctx.cov['stages'].append({'stage': name, 'module': module, 'direction': 'TLAPS (tlapm), unbounded', 'obligations_proved': int(m.group(1)),
                                  'wall_s': round(time.time() - t0, 1)})
    return run


def P(quick, thorough, rule, labels, extra_assume=()):
    return {'quick': quick, 'thorough': thorough, 'rule': PATCH_RULE % rule, 'exhaustive': True,
            'assumptions': PATCH_ASSUME + list(extra_assume),
            'required_labels': {'quick': labels, 'thorough': labels}}


def AP(name, seeds, opts, vals, vals2, maxops, **kw):
    kw.setdefault('invariants', INV)
    kw.setdefault('properties', PROPS)
    return A_patch(name, seeds, opts, vals, vals2, maxops, **kw)


def MPLAN(quick, thorough, rule, labels):
    return {'quick': quick, 'thorough': thorough, 'rule': rule, 'exhaustive': True, 'assumptions': MERGE_ASSUME,
            'required_labels': {'quick': labels, 'thorough': labels}}


def A_equal(name, level, triples=True, **kw):
    def run(ctx):
        consts = {'Level': level, 'EmitOn': 'TRUE', 'Triples': 'TRUE' if triples else 'FALSE'}
        run_A(ctx, 'MCEqual', name, consts, invariants=('Reflexive', 'Symmetric', 'Transitive', 'NullOnlyNull', 'OrderBlind'),
              spec='ESpec', **kw)
    return run


def A_decode(name, pairs, **kw):
    def run(ctx):
        run_A(ctx, 'MCDecode', name, {'EmitOn': 'TRUE', 'Pairs': pairs, 'MaxNest': 10000}, invariants=('BaseAccepted',), spec='DSpec', **kw)
    return run


def A_words(name, maxlen, sigma, depth=10000, **kw):
    def run(ctx):
        consts = {'MaxLen': maxlen, 'SigmaId': '"%s"' % sigma, 'EmitOn': 'TRUE', 'MaxDepth': depth, 'MaxNest': depth}
        run_A(ctx, 'MCScanner', name, consts, invariants=('ScanOK', 'LanguageEq', 'ErrorAbsorbs', 'TransducersOK'), spec='SSpec', **kw)
    return run


def A_codec(name, level, **kw):
    def run(ctx):
        consts = {'Level': level, 'EmitOn': 'TRUE', 'MaxNest': 10000, 'MaxDepth': 10000}
        run_A(ctx, 'MCCodec', name, consts, invariants=('ParseEnc', 'SortedIsEqual', 'TransducersOnEnc'), spec='CSpec', rworkers=2, **kw)
    return run


def A_goenc(name, level, **kw):
    def run(ctx):
        run_A(ctx, 'MCGoEnc', name, {'EmitOn': 'TRUE', 'Level': level, 'MaxNest': 10000, 'MaxDepth': 10000}, invariants=('WellFormedOut',), spec='GSpec', **kw)
    return run


def A_godec(name, level, **kw):
    def run(ctx):
        run_A(ctx, 'MCGoDec', name, {'EmitOn': 'TRUE', 'Level': level, 'MaxNest': 10000, 'MaxDepth': 10000}, invariants=('TypeKept', 'Stable', 'NullIsZero', 'UseNumberOnlyIface', 'StrictOnlyAddsErrors', 'Modelled'),
              spec='DecSpec', **kw)
    return run


def A_equal_legacy(name, level):
    def run(ctx):
        consts = {'Level': level, 'EmitOn': 'TRUE', 'Triples': 'FALSE'}
        run_A(ctx, 'MCEqual', name, consts, invariants=('Reflexive', 'Symmetric', 'NullOnlyNull', 'OrderBlind'), spec='ESpec', legacy=True)
    return run


def A_cli(name, maxfiles):
    def run(ctx):
        h = ctx.harness()
        stage = os.path.join(ctx.scratch, 'v5stage')
        cli = os.path.join(ctx.scratch, 'bin-json-patch')
        p = subprocess.run(['go', 'build', '-o', cli, './cmd/json-patch'], cwd=stage, env=ctx.env, capture_output=True, text=True)
        if p.returncode != 0:
            raise Broken('cannot build v5/cmd/json-patch: ' + p.stderr[-2000:])
        tmp = os.path.join(ctx.scratch, 'clitmp')
        os.makedirs(tmp, exist_ok=True)
        run_A(ctx, 'Cli', name, {'MaxFiles': maxfiles, 'EmitOn': 'TRUE'},
              invariants=('NoPartialOutput', 'OutputIsFold', 'FailsCleanly', 'OrderWitness'), spec='CSpec',
              extra_opt='cli=%s,tmp=%s' % (cli, tmp))
    return run


def A_coldstart(name, maxcalls, procs, callset, lines=400, runs=24):
    """C10: the first uses of a type / pool in a FRESH process, from several goroutines at once: the same history lines are
    given to many freshly started replayer processes (race-detector build), each of which starts all its workers at once."""
    def run(ctx):
        t0 = time.time()
        consts = {'MaxCalls': maxcalls, 'Procs': procs, 'CallSet': '"%s"' % callset, 'EmitOn': 'TRUE'}
        cfg = ctx.write_cfg('run_' + name, 'HSpec', consts, invariants=('InputsUnchanged', 'ResultIsFunctionOfCall'), action_constraint='Emit')
        p = subprocess.run(['timeout', '3000'] + ctx.tlc_cmd('History', cfg), cwd=ctx.specdir(), env=ctx.env, capture_output=True, text=True)
        out = p.stdout
        got = [l for l in out.split('\n') if l.startswith('"{')]
        if len(got) < lines:
            raise Broken('stage %s: TLC printed only %d history lines' % (name, len(got)))
        step = max(1, len(got) // lines)
        batch = '\n'.join(got[::step][:lines]) + '\n'
        replay = ctx.build('replay', race=True)
        renv = dict(ctx.env, GORACE='halt_on_error=1 exitcode=66')
        n = 0
        for r in range(runs):
            rargs = [replay, '-prop', ctx.prop, '-seed', str(ctx.seed + r), '-findings', FINDINGS, '-replays', REPLAYS, '-opt', 'gcflush=0']
            q = subprocess.run(rargs, input=batch, capture_output=True, text=True, env=renv)
            n += 1
            if q.returncode == 66:
                os.makedirs(REPLAYS, exist_ok=True)
                path = os.path.join(REPLAYS, '%s-race-%s-%d.json' % (ctx.prop, name, r))
                json.dump({'property': ctx.prop, 'kind': 'data-race', 'detail': 'the Go race detector reported a data race in a freshly started process',
                           'case': {'stage': name, 'constants': consts, 'run': r, 'race_report': q.stderr[-6000:]}}, open(path, 'w'), indent=1)
                print('VIOLATION property=%s replay=%s' % (ctx.prop, path))
                print('  kind=data-race (cold start) ' + (q.stderr.strip().split('\n')[0] if q.stderr.strip() else ''))
                ctx.violations += 1
                break
            if q.returncode not in (0, 1):
                raise Broken('stage %s: replayer failed (exit %d): %s' % (name, q.returncode, q.stderr[-1500:]))
            ctx.absorb_summary(q.stdout, name)
            if q.returncode == 1:
                break
        ctx.exhaustive = False
        ctx.cov['stages'].append({'stage': name, 'module': 'History', 'direction': 'A, cold start: %d fresh processes x %d history lines' % (n, lines),
                                  'constants': consts, 'wall_s': round(time.time() - t0, 1)})
    return run


def A_history(name, maxcalls, procs, callset, **kw):
    def run(ctx):
        consts = {'MaxCalls': maxcalls, 'Procs': procs, 'CallSet': '"%s"' % callset, 'EmitOn': 'TRUE'}
        run_A(ctx, 'History', name, consts, invariants=('InputsUnchanged', 'ResultIsFunctionOfCall'), spec='HSpec', **kw)
    return run


def both(stage_v5, stage_v4):
    return [stage_v5, stage_v4]


def replay_file(ctx, plan, path):
    """Re-run one recorded case against /repo's current working tree (bin/check <id> --replay <file>)."""
    v = json.load(open(path))
    case = v.get('case', {})
    legacy = case.get('package') == 'v4'
    before = ctx.violations
    if v.get('kind') == 'trace-rejected':
        # direction B: re-execute the recorded inputs, record the events again, validate them again
        B_trace('replay', case['fam'], 0, mode=case.get('mode', 'ordered' if ctx.prop == 'C05' else 'value'), legacy=legacy, case=path)(ctx)
        return 1 if ctx.violations > before else 0
    if v.get('kind') == 'data-race':
        print('a data race is a property of an execution: re-running the stage that reported it')
        for stage in plan['quick']:
            stage(ctx)
        return 1 if ctx.violations > before else 0
    line = case.get('line')
    if line is None:
        raise Broken('replay file has no line')
    race = ctx.prop == 'C10'
    replay = ctx.build('replay', legacy=legacy, race=race)
    rargs = [replay, '-prop', ctx.prop, '-seed', str(ctx.seed), '-findings', FINDINGS,
             '-replays', os.path.join(ctx.scratch, 'replays'), '-workers', '1']
    if case.get('spelling') == 'respelled':
        rargs.append('-respell')
    if line.get('fam') == 'cli':
        stage = os.path.join(ctx.scratch, 'v5stage')
        cli = os.path.join(ctx.scratch, 'bin-json-patch')
        subprocess.run(['go', 'build', '-o', cli, './cmd/json-patch'], cwd=stage, env=ctx.env, check=True)
        rargs += ['-opt', 'cli=%s,tmp=%s' % (cli, ctx.scratch)]
    p = subprocess.run(rargs, input=json.dumps(line, separators=(',', ':')) + '\n', capture_output=True, text=True, env=ctx.env)
    print(p.stdout)
    if p.returncode == 2 and re.search(r'^fatal error: |^runtime: goroutine stack exceeds', p.stderr, re.M):
        print('VIOLATION property=%s replay=%s' % (ctx.prop, path))
        print('  kind=crash ' + re.search(r'^(fatal error: .*|runtime: goroutine stack exceeds.*)$', p.stderr, re.M).group(1))
        return 1
    if p.returncode not in (0, 1):
        raise Broken('the replayer failed: ' + p.stderr[-1500:])
    return 1 if 'VIOLATION' in p.stdout else 0


V_ALL = list(range(1, 14))
S_ALL = list(range(1, 12))
O_ALL = list(range(1, 12))
INV = ('DocOK', 'CopyBound', 'LimitZeroNeverFails', 'SkipEquivalent', 'EnsureLookup')
PROPS = ('OnlyCopyCounts', 'FirstFailureWins', 'NoOpSteps', 'OnlyRemoveForgiven', 'EnsureAgrees', 'EnsureFrame',
         'OrderPreserved', 'LiteralsCarried', 'RefinesCopyAcct')
PATCH_ASSUME = [
    'bounded universe: seed documents, values and near-miss pointers of spec/MCPatch.tla; exhaustive only up to the stated depth',
    'the independent JSON reader of harness/jsonread is the projection (cross-checked against TLC and the library in C16/C17 runs)',
    'cases the statement places outside its domain are recognised by the specification (result "dc") and not compared',
]
PATCH_RULE = ('TLC enumerates all operation sequences up to the stated depth from every seed document, with pointers generated '
              'from the current document (resolvable + near-misses); each transition is executed on the real library and %s; '
              'distinct_nontrivial counts distinct (seed, options, operation sequence) whose behaviour changes the document or fails')
CORE_LABELS = ['AddMember', 'AddExisting', 'AddInsert', 'AddAppend', 'RemoveMember', 'RemoveElem',
               'ReplaceMember', 'ReplaceElem', 'Move', 'Copy', 'TestPass', 'TestFail']






PLANS = {
    'C01': P(
        [AP('d1', S_ALL, [1, 2], V_ALL, [1, 2, 9], 1, respell=True),
         AP('d2', [5, 6], [1, 2], [1, 2, 6, 8, 9], [1, 2, 9], 2),
         AP('d2b', [10], [1], [1, 9], [1], 2)],
        [AP('d1', S_ALL, [1, 2], V_ALL, [1, 2, 9], 1, respell=True),
         AP('d2', [1, 2, 3, 4, 5, 6, 10, 11], [1, 2], V_ALL, [1, 2, 6, 8, 9], 2, timeout=9000),
         AP('d3', [8, 9], [1, 2], [1, 2, 6, 7, 9], [1, 6, 9], 3, timeout=9000),
         P_apalache('index', 'IndexLemmas', 'All')],
        'the structural (member-order-insensitive, literal-exact) form of the output is compared with the specification state '
        '(canonical and re-spelled texts)',
        CORE_LABELS + ['AddRoot', 'ReplaceRoot', 'TestPassAbsent', 'TestFailAbsent', 'AddBadIndex', 'AddNoParent',
                       'RemoveAbsentMember', 'MoveFromRoot']),
    'C05': P(
        [AP('d1', S_ALL, [1, 5], V_ALL, [1, 2, 9], 1),
         AP('d2', [5, 10], [1], [1, 2, 6, 8, 9], [1, 2, 9], 2),
         A_merge('mo', 'merge', 2, 2, 1)],
        [AP('d1', S_ALL, [1, 2, 5, 8], V_ALL, [1, 2, 9], 1),
         A_merge('mo', 'merge', 3, 2, 1, timeout=9000), A_merge('mo2', 'merge', 1, 2, 2, timeout=9000),
         AP('d2', [1, 3, 4, 5, 6, 10, 11], [1], V_ALL, [1, 2, 6, 8, 9], 2, timeout=9000),
         AP('d3', [8, 9], [1], [1, 2, 6], [1, 6], 3, kinds=['add', 'remove', 'replace', 'move', 'copy'], timeout=9000)],
        'the ORDERED, literal-exact form of the output (member order and number literals significant) is compared with the '
        'specification state; the empty patch is replayed for every seed',
        CORE_LABELS + ['EmptyPatch', 'AddRoot', 'AddEnsure', 'SurvivorOrder_dc']),
    'C08': P(
        [AP('d1', S_ALL, O_ALL, [1, 2, 6, 8, 9, 11], [1, 2, 9], 1),
         AP('d2', [5, 6], [1, 5, 9], [1, 2, 6], [1, 9], 2)],
        [AP('d1', S_ALL, O_ALL, V_ALL, [1, 2, 9], 1),
         AP('d2', [1, 2, 5, 6, 10], [1, 3, 5, 9, 11], [1, 2, 6, 8, 9], [1, 2, 9], 2, timeout=9000)],
        'success/failure, "no document on failure", and the error class (errors.Is ErrTestFailed / ErrMissing, errors.As '
        '*AccumulatedCopySizeError) are compared with the class of the first failing operation in the specification; every '
        'failing behaviour is re-run with three tails appended after the failing operation',
        ['TestFail', 'TestFailAbsent', 'TestNoParent', 'AddNoParent', 'AddBadIndex', 'RemoveAbsentMember', 'RemoveNoParent',
         'RemoveBadIndex', 'ReplaceAbsentMember', 'ReplaceNoParent', 'MoveFromAbsentMember', 'MoveFromNoParent',
         'CopyFromAbsentMember', 'CopyOverLimit', 'MoveFromRoot', 'Copy', 'AddEnsure', 'RemoveSkippedMember']),
    'C12': P(
        [AP('d1L', [1, 2, 7, 10, 11], [1, 9], V_ALL, [1, 2, 9], 1, respell=True, extra_opt='wsonly=1', legacy=True),
         AP('d2L', [10], [1, 9], [1, 5, 8], [1, 5], 2, kinds=['copy', 'add', 'remove'], respell=True, extra_opt='wsonly=1', legacy=True),
         AP('d1', [1, 2, 7, 10, 11], [1, 8, 9, 10, 11], V_ALL, [1, 2, 9], 1, respell=True, extra_opt='wsonly=1'),
         AP('d2', [10, 6], [1, 8, 9, 10], [1, 5, 8], [1, 5], 2, kinds=['copy', 'add', 'remove', 'replace'], respell=True,
            extra_opt='wsonly=1'),
         P_apalache('acct0', 'CopyAcct', 'IndInv', init='Init', length=0), P_apalache('acct1', 'CopyAcct', 'IndInv', init='IndInit', length=1),
         P_tlaps('acctproof', 'CopyAcctProof')],
        [AP('d1L', S_ALL, [1, 9], V_ALL, [1, 2, 9], 1, respell=True, extra_opt='wsonly=1', legacy=True),
         AP('d2L', [10, 6], [1, 9], [1, 5, 8], [1, 5], 2, kinds=['copy', 'add', 'remove', 'replace'], respell=True, extra_opt='wsonly=1', legacy=True, timeout=9000),
         AP('d1', S_ALL, [1, 8, 9, 10, 11], V_ALL, [1, 2, 9], 1, respell=True, extra_opt='wsonly=1'),
         AP('d2', [1, 2, 7, 10, 6], [1, 8, 9, 10], [1, 5, 8], [1, 5], 2, kinds=['copy', 'add', 'remove', 'replace'], respell=True,
            extra_opt='wsonly=1', timeout=9000),
         AP('d3', [9, 8], [1, 8, 9, 10], [5, 7], [5], 3, kinds=['add', 'copy'], timeout=9000),
         P_apalache('acct0', 'CopyAcct', 'IndInv', init='Init', length=0), P_apalache('acct1', 'CopyAcct', 'IndInv', init='IndInit', length=1),
         P_tlaps('acctproof', 'CopyAcctProof')],
        'for every successful behaviour ending in a copy the patch is re-run with limits total-1 (must stop with '
        '*AccumulatedCopySizeError and no document), total, total+1, total+1000 (must succeed with the same document), through '
        'the per-call option and through the package default; behaviours under fixed limits 7/12/20 are compared with the '
        'specification counter (sizes as spec/JsonEnc.tla spells values; a copied null weighs 0 or 4)',
        ['Copy', 'CopyOverLimit', 'CopyProbe_run', 'CopyProbe_err', 'CopyProbe_reuse'],
        ['the size of a copied value is EncLen of spec/JsonEnc.tla (compact, HTML escapes iff enabled); inputs are spelled '
         'canonically or with extra white space only, so that the size in the output is that size']),
    'C13': P(
        [AP('d1', S_ALL, [3, 4, 7, 11], [1, 2, 6, 8, 9], [1, 2, 9], 1),
         AP('d2', [5, 6], [3, 4], [1, 2, 6], [1, 9], 2)],
        [AP('d1', S_ALL, [3, 4, 7, 11], V_ALL, [1, 2, 9], 1),
         AP('d2', [1, 2, 5, 6, 10, 11], [3, 4], [1, 2, 6, 8, 9], [1, 2, 9], 2, timeout=9000),
         AP('d3', [8, 9], [3, 4], [1, 6, 8], [1, 6], 3, kinds=['add', 'remove', 'move', 'replace'], timeout=9000)],
        'with AllowMissingPathOnRemove the output is compared with the specification, and the same patch minus the removes '
        'the specification skipped is run WITHOUT the option: both real outcomes must agree (document or error)',
        ['RemoveSkippedMember', 'RemoveSkippedIndex', 'RemoveSkippedNoParent', 'RemoveMember', 'RemoveElem',
         'MoveFromAbsentMember', 'ReplaceAbsentMember', 'SkipPairs_1']),
    'C14': P(
        [AP('d1', S_ALL, [5, 6, 7, 11], [1, 2, 6, 8, 9], [1, 2, 9], 1),
         AP('d2', [8, 9, 5], [5, 6], [1, 2, 6], [1, 9], 2),
         AP('d2w', [8, 9], [5], [1, 6, 7], [1, 6], 2, wide=2, kinds=['add', 'test', 'remove'])],
        [AP('d1', S_ALL, [5, 6, 7, 11], V_ALL, [1, 2, 9], 1),
         AP('d2', [1, 2, 5, 6, 8, 9, 10], [5, 6], [1, 2, 6, 8, 9], [1, 2, 9], 2, wide=2, timeout=9000)],
        'with EnsurePathExistsOnAdd the output is compared with the specification document, in which TLC has checked that the '
        'added value is found at the path (EnsureLookup), that nothing else changed (EnsureFrame) and that an add which '
        'succeeds without the option gives the same document (EnsureAgrees)',
        ['AddEnsure', 'AddMember', 'AddExisting', 'AddInsert', 'AddAppend']),
    'C15': P(
        [AP('d1', [7, 2, 10, 1, 8, 9], [1, 8], V_ALL, [1, 2, 9], 1),
         AP('d2', [10], [1, 8], [1, 5, 9], [1, 5], 2)],
        [AP('d1', S_ALL, [1, 2, 8, 7], V_ALL, [1, 2, 9], 1),
         AP('d2', [10, 7, 5, 6], [1, 8], [1, 5, 9, 10], [1, 5, 9], 2, timeout=9000)],
        'the raw output bytes are checked: well-formed (independent reader), valid UTF-8, structurally equal to the specification '
        'document; EscapeHTML on: no raw < > & U+2028 U+2029; off: no escape of < > & introduced; on/off outputs equal after '
        'normalising those escapes; ApplyIndent (three indents) equals Apply up to insignificant white space and every line is '
        'indented depth x indent; the same patch without its passing test operations gives identical bytes',
        ['TestPass', 'TestNoOpPairs', 'Copy', 'AddMember'],
        ['byte-identity clauses are checked on canonically spelled inputs (spelled as spec/JsonEnc.tla Enc(v, FALSE))']),
}


MERGE_ASSUME = [
    'bounded universe of spec/MCMerge.tla: keys a b c, leaves null 1 1.0 "x" and 23-digit integers, arrays of <= 2, nesting <= 3 '
    '(levels Small=12, Mid=324, Top~1000 values); exhaustive over the stated levels',
    'the independent JSON reader of harness/jsonread is the projection',
]




PLANS.update({
    'C02': MPLAN(
        [A_merge('m1', 'merge', 3, 2, 1, respell=True)],
        [A_merge('m1', 'merge', 3, 2, 1, respell=True, timeout=9000), A_merge('m1b', 'merge', 2, 3, 1, respell=True, timeout=9000),
         A_merge('m2', 'merge', 1, 2, 2, timeout=9000)],
        'TLC enumerates every (document, patch) pair of the bounded universe (any root type except a null document), computes RFC 7396 '
        'MP(document, patch) and checks idempotence / wholesale replacement on the specification; the real MergePatch is run on both '
        'texts (canonical and re-spelled, with surrounding white space) and its output compared structurally; literal patches must come '
        'back verbatim, array patches unedited; distinct_nontrivial counts pairs whose result differs from the document',
        ['Merge_obj', 'Merge_arr', 'Merge_null', 'Merge_num', 'Merge_str']),
    'C03': MPLAN(
        [A_merge('df', 'diff', 3, 2, 1, respell=True)],
        [A_merge('df', 'diff', 3, 2, 1, respell=True, timeout=9000), A_merge('dfb', 'diff', 2, 3, 1, respell=True, timeout=9000)],
        'TLC enumerates every pair (A, B) of the bounded universe, classifies it (objects / arrays of objects of equal length / rejected), '
        'computes the minimal patch Diff(A, B) and checks round trip, minimality and "{} iff equal" on the specification '
        '(IsMinimalPatch states the clauses of the property one by one); the real CreateMergePatch must reject or succeed accordingly, '
        'its patch must equal Diff(A, B) structurally with B\'s literals, and the real MergePatch(A, patch) must give B when B has no '
        'null member; distinct_nontrivial counts accepted pairs',
        ['Create_obj', 'Create_arr', 'Create_reject', 'RoundTrip']),
    'C07': MPLAN(
        [A_merge('cp', 'merge', 1, 2, 2, parts=4, part=None)],
        [A_merge('cp', 'merge', 1, 2, 2, timeout=9000), A_merge('cp2', 'merge', 2, 1, 2, timeout=9000)],
        'TLC enumerates triples (D, P1, P2), checks the composition law MP(MP(D,P1),P2) = MP(D, Compose(P1,P2)) for every compatible pair on '
        'the specification; for every compatible pair the real MergeMergePatches(P1,P2) is applied to D with the real MergePatch and must '
        'give the sequential result, and the combined patch must equal Compose(P1,P2) structurally (it is unique up to member order); '
        'the quick tier explores one quarter of the documents, selected by VERIF_SEED',
        ['ComposeCompatible', 'Merge_obj', 'Merge_null']),
})






PLANS.update({
    'C06': {
        'quick': [A_equal('eq', 2), A_words('w4', 4, 'full')],
        'thorough': [A_equal('eq', 2), A_equal('eq3', 3, triples=False, timeout=9000), A_words('w5', 5, 'full', timeout=9000)],
        'rule': 'TLC enumerates every pair of the bounded universe plus near-misses (members reordered, elements swapped, null at the root / '
                'in arrays / as member) with the verdict of structural equality, and checks reflexivity, symmetry, transitivity (all triples '
                'a=b, c) and null-only-null on the specification; the real Equal is called on 2x2 spellings of each pair in both argument '
                'orders; malformed texts: every word of the bounded JSON language (MCScanner, bare and wrapped in white space) is given to '
                'Equal(w, w), Equal(w, 1), Equal(1, w) with the grammar\'s verdict as the expectation; distinct_nontrivial counts distinct pairs / words',
        'exhaustive': True, 'assumptions': MERGE_ASSUME,
        'required_labels': {t: ['Equal_true', 'Equal_false', 'Equal_nullroot', 'Word_invalid', 'Word_valid_num'] for t in ('quick', 'thorough')},
    },
    'C11': {
        'quick': [A_decode('dec', 1)],
        'thorough': [A_decode('dec', 2, timeout=3000)],
        'rule': 'TLC enumerates the six valid operation shapes and every document obtained by deleting, nulling, retyping (7 JSON values), '
                'renaming (case), duplicating (before/after) each member, odd op names, extra members, non-object elements, non-array roots, '
                'and two-element documents [valid, mutated] / [mutated, valid] (thorough: all double mutations); the specification predicate '
                'Accepts decides each; the real DecodePatch must agree on two spellings, the accessors must return the members, and every '
                'accepted patch is applied to four probe documents under recover(); distinct_nontrivial counts documents',
        'exhaustive': True,
        'assumptions': ['duplicate member names follow Go\'s last-wins rule (stated in spec/DecodePatch.tla)',
                        'the independent JSON reader of harness/jsonread is the projection'],
        'required_labels': {'quick': ['Decode_true', 'Decode_false'], 'thorough': ['Decode_true', 'Decode_false']},
    },
})




TEXT_ASSUME = [
    'words over the representative alphabets of spec/MCScanner.tla (full: 37 symbols incl. structural characters, digits, exponent, escapes, '
    'controls 0x00 0x1f 0x7f, white space, a 2-byte and a 3-byte UTF-8 symbol, < and &), all words up to the stated length whose every '
    'proper prefix is viable; nesting limit 10000 as in the code',
    'the independent JSON reader of harness/jsonread must agree with the specification grammar on every word (self-check, exit 2 otherwise)',
]

PLANS.update({
    'C16': {
        'quick': [A_words('w4', 4, 'full'), A_words('tok6', 6, 'token', extra_opt='nodepth=1'), A_words('bad5', 5, 'badutf', extra_opt='nodepth=1'),
                  A_words('esc6', 6, 'escape', extra_opt='nodepth=1'), A_decode('dec', 1), T_depth('depth6', 6)],
        'thorough': [A_words('w5', 5, 'full', timeout=9000), A_words('w7s', 7, 'tiny', timeout=9000), A_words('tok7', 7, 'token', extra_opt='nodepth=1', timeout=9000),
                     A_words('esc8', 8, 'escape', extra_opt='nodepth=1', timeout=9000),
                     A_decode('dec', 2), T_depth('depth7', 7)],
        'rule': 'TLC enumerates every word up to the stated length (extending viable prefixes only, so first-error words are included), checks '
                'on the specification that the scanner automaton (Scanner.tla, a transcription of scanner.go) accepts exactly the texts of '
                'the declarative RFC 8259 grammar (JsonText.tla) and that Compact/Indent accept the same language; every word, bare and '
                'wrapped in white space, is given to the codec\'s Valid/Compact/Indent/Unmarshal/Decoder and to DecodePatch, Apply, '
                'MergePatch (both positions), MergeMergePatches (both), CreateMergePatch, Equal, whose accept/reject must equal the '
                'specification verdict composed with the shape each entry point requires; the nesting limit: TLC checks with MaxDepth = 3 that '
                'automaton and grammar accept nesting d exactly when d <= MaxDepth (all words to length 6/7 over the structural alphabet), and '
                'array/object nestings of depth 9999, 10000, 10001 are given to the real entry points; whole-token words (tok) reach trailing commas and '
                'missing colons; the patch-document universe of C11 (values such as 1e400 and -2.5E+999 included) is run as well-formed texts of the '
                'right shape that DecodePatch must accept; the process-wide sync.Pools are emptied every 40 ms so that fresh pooled decoder states '
                'are used throughout; distinct_nontrivial counts words',
        'exhaustive': True, 'assumptions': TEXT_ASSUME,
        'required_labels': {t: ['Word_invalid', 'Word_valid_obj', 'Word_valid_arr', 'Word_valid_num', 'Word_valid_str', 'Word_valid_null',
                                'Depth_arr_true', 'Depth_arr_false', 'Depth_obj_true', 'Depth_obj_false'] for t in ('quick', 'thorough')},
    },
})






PLANS.update({
    'C17': {
        'quick': [A_words('w4', 4, 'full', extra_opt='wrap=0'), A_codec('enc', 2), A_goenc('go', 3), A_godec('godec', 1)],
        'thorough': [A_words('w5', 5, 'full', extra_opt='wrap=0', timeout=9000), A_codec('enc', 3, timeout=9000), A_goenc('go', 3), A_godec('godec', 2, timeout=9000)],
        'rule': 'words: for every word of the bounded language the codec\'s Compact, Indent (two prefix/indent pairs), HTMLEscape and '
                'compact-with-escaping outputs must equal, byte for byte, the transducers of Scanner.tla (which TLC has checked to keep the '
                'value); Unmarshal then Marshal/MarshalEscaped must reproduce the value read by the independent reader (numbers by literal); '
                'UnmarshalWithKeys/UnmarshalValidWithKeys must report the member names in document order; values: for every universe value '
                'and a set of awkward strings/numbers, decode(Enc(v)) re-encoded must equal Enc(SortKeys(v), esc) for both settings, also '
                'through Encoder and as multi-value Decoder streams with short reads; Go values: every value of MCGoEnc (structs with tags built by '
                'reflect.StructOf) must be written exactly as GoMarshal(v, esc); on the same inputs the results are compared with encoding/json (b/f escapes normalised, Number kept) - '
                'that last comparison is differential and is labelled std-diff; distinct_nontrivial counts words + values',
        'exhaustive': True,
        'assumptions': TEXT_ASSUME + ['Go values are the 837 of spec/MCGoEnc.tla (GoEnc.tla states the encoding rules); decoding INTO typed values '
                                      'and the token API of Decoder are NOT modelled by the specification: they are covered only by the '
                                      'differential comparison with encoding/json (kind std-diff), see DESIGN.md section 11.2'],
        'required_labels': {t: ['Word_invalid', 'Word_valid_obj', 'Word_valid_str', 'Enc_obj', 'Enc_str', 'Enc_num', 'StreamDecoded', 'GoEnc_struct', 'GoEnc_map', 'GoEnc_ptr', 'GoEnc_bytes',
                                 'GoDec_struct_ok', 'GoDec_struct_saved', 'GoDec_struct_hard', 'GoDec_tmap_saved', 'GoDec_tslice_ok', 'GoDec_ptr_ok', 'TraceEvents_godec']
                            for t in ('quick', 'thorough')},
    },
})


LEGACY_ASSUME = PATCH_ASSUME + [
    'the legacy root package (import path github.com/evanphx/json-patch) is staged from /repo/patch.go merge.go errors.go as a module; '
    'only behaviours inside the domain C18 states are compared: the reference succeeds (no root-replacing add, no copy from ""), or the '
    'first inapplicable operation is a failed test, a remove/move of an absent location or an out-of-range index; test values are spelled '
    'without escapes and without < > &',
]

PLANS.update({
    'C18': {
        'quick': [AP('d1', S_ALL, [1, 2], V_ALL, [1, 2, 9], 1, legacy=True, respell=True, extra_opt='wsonly=1'),
                  AP('d2', [5, 6], [1, 2], [1, 2, 6, 8, 9], [1, 2, 9], 2, legacy=True)],
        'thorough': [AP('d1', S_ALL, [1, 2], V_ALL, [1, 2, 9], 1, legacy=True, respell=True, extra_opt='wsonly=1'),
                     AP('d2', [1, 2, 3, 4, 5, 6, 10, 11], [1, 2], V_ALL, [1, 2, 6, 8, 9], 2, legacy=True, timeout=9000)],
        'rule': PATCH_RULE % 'the legacy package\'s Apply is compared structurally (up to member order, numbers by literal) with the '
                'specification document, or must fail without a document for the failure kinds C18 lists; both settings of the '
                'SupportNegativeIndices package variable',
        'exhaustive': True, 'assumptions': LEGACY_ASSUME,
        'required_labels': {t: CORE_LABELS + ['TestFailAbsent', 'RemoveAbsentMember', 'AddBadIndex', 'LegacyOutsideDomain'] for t in ('quick', 'thorough')},
    },
})




PLANS.update({
    'C19': {
        'quick': [A_merge('m1', 'merge', 2, 2, 1, respell=True, legacy=True), A_merge('df', 'diff', 2, 2, 1, respell=True, legacy=True),
                  A_merge('cp', 'merge', 1, 2, 2, parts=4, part=None, legacy=True), A_equal_legacy('eq', 2)],
        'thorough': [A_merge('m1', 'merge', 3, 2, 1, respell=True, legacy=True, timeout=9000),
                     A_merge('df', 'diff', 3, 2, 1, respell=True, legacy=True, timeout=9000),
                     A_merge('cp', 'merge', 1, 2, 2, legacy=True, timeout=9000), A_equal_legacy('eq', 2)],
        'rule': 'the merge, diff, compose and equality universes of C02/C03/C07/C06 replayed into the staged legacy package, restricted to the '
                'domain C19 states (object/array patches; CreateMergePatch on objects with float64-spelled numbers and a null-free B; '
                'compose under C07\'s proviso; Equal on container roots without escapes); lines outside that domain are counted under '
                'LegacyOutsideDomain and not compared; distinct_nontrivial counts compared cases',
        'exhaustive': True, 'assumptions': MERGE_ASSUME + ['legacy root package staged as a module from /repo/patch.go merge.go errors.go'],
        'required_labels': {t: ['Merge_obj', 'Merge_arr', 'Create_obj', 'RoundTrip', 'ComposeCompatible', 'Equal_true', 'Equal_false',
                                'LegacyOutsideDomain'] for t in ('quick', 'thorough')},
    },
})




PLANS.update({
    'C20': {
        'quick': [A_cli('cli3', 3)],
        'thorough': [A_cli('cli4', 4)],
        'rule': 'TLC explores the state machine of the command (parse flags, load and decode each file, read stdin, apply in order, print or '
                'fatal) for every list of up to 3 (quick) / 4 (thorough) -p arguments over 11 kinds of file (six patches, one of them not idempotent; a kind named twice is the same file twice; of which two do not '
                'commute and one fails in its second operation, the empty patch, a non-patch, malformed JSON, a missing path, a directory) x 4 '
                'documents on stdin (one patch value and one document contain % signs), checks NoPartialOutput / OutputIsFold / FailsCleanly on the specification; every scenario is '
                'materialised and run against the binary built from v5/cmd/json-patch: exit status, empty stdout and non-empty stderr on '
                'failure, stdout equal to the specification document and byte-equal to the in-process fold of the library on success',
        'exhaustive': True,
        'assumptions': ['patch application inside the command is Patch6902 under the default options', 'files are regular files in a scratch directory'],
        'required_labels': {'quick': ['Cli_exit0_files3', 'Cli_exit1_files3', 'Cli_exit0_files0', 'Cli_exit1_files1'],
                            'thorough': ['Cli_exit0_files4', 'Cli_exit1_files4', 'Cli_exit0_files0']},
    },
})




HIST_ASSUME = [
    'call universe of spec/History.tla: 5 document buffers (one malformed), 6 RFC 6902 patches decoded ONCE and shared by every call of the '
    'run (one malformed, two failing), 4 merge patches (one malformed), two option sets; small = 20 calls, full = ~110 calls',
    'buffers carry 48 bytes of spare capacity filled with a pattern: a write into contents or spare capacity is detected',
]
PLANS.update({
    'C09': {
        'quick': [A_history('h3', 3, 1, 'small', rworkers=1), A_history('h2f', 2, 1, 'full', rworkers=1)],
        'thorough': [A_history('h4', 4, 1, 'small', rworkers=1, timeout=9000), A_history('h2f', 2, 1, 'full', rworkers=1, timeout=9000)],
        'rule': 'TLC enumerates ALL histories of the stated length over the call universe (any order, any multiplicity, failing and malformed '
                'calls in between) and assigns to every call the result its arguments determine (PatchOps/Merge7396/Equal); the replayer runs '
                'every history in ONE process and one goroutine without resetting anything, over the same buffers and the same decoded Patch '
                'values for the whole run; after every call: result = the determined result, bytes identical to the first occurrence of the '
                'identical call anywhere in the run (Apply, ApplyIndent, CreateMergePatch, Equal; value for the merge functions), every '
                'buffer byte-identical to its snapshot, every shared Patch deep-identical (member set, *RawMessage identity and bytes); '
                'distinct_nontrivial counts distinct histories',
        'exhaustive': True, 'assumptions': HIST_ASSUME,
        'required_labels': {t: ['Call_Apply', 'Call_ApplyIndent', 'Call_DecodePatch', 'Call_MergePatch', 'Call_MergeMergePatches',
                                'Call_CreateMergePatch', 'Call_Equal'] for t in ('quick', 'thorough')},
    },
    'C10': {
        'quick': [A_history('c2x3', 3, 2, 'small', race=True), A_coldstart('cold', 2, 3, 'small', lines=150, runs=12)],
        'thorough': [A_history('c3x3', 3, 3, 'small', race=True, timeout=9000), A_history('c4x3', 3, 4, 'small', race=True, timeout=9000),
                     A_history('c2x2f', 2, 2, 'full', race=True, timeout=9000), A_coldstart('cold', 2, 3, 'small', runs=80)],
        'rule': 'TLC enumerates every assignment of calls to 2 (quick) / 3 processes and every interleaving at call granularity (the contract '
                'makes each call one atomic step); for every such line the replayer starts one goroutine per process, free-running, over the '
                'shared buffers and the shared decoded Patch values, 16 lines in flight at once, in a binary built with the Go race detector '
                '(halt_on_error): every call must return the result its arguments determine (bytes equal to the first sequential/concurrent '
                'occurrence) and the race detector must stay silent; a race report is the violation; cold start: 150 of the lines are given to 12 '
                '(thorough 80) FRESHLY STARTED processes, so that the first use of every type cache and pool happens from several goroutines at '
                'once; distinct_nontrivial counts lines',
        'exhaustive': True,
        'assumptions': HIST_ASSUME + ['absence of a race report is evidence, not proof: the race detector observes the schedules that happened; '
                                      'the specification supplies workloads and expected results (DESIGN.md section 8)'],
        'required_labels': {t: ['Call_Apply', 'Call_MergePatch', 'Call_CreateMergePatch', 'Call_Equal'] for t in ('quick', 'thorough')},
    },
})


O_EVERY = list(range(12, 60))      # all 16 boolean combinations x limits 0, 1, 5




PLANS.update({
    'C04': {
        'quick': [
            A_words('w3', 3, 'full'), A_words('w3L', 3, 'full', extra_opt='nodepth=1', legacy=True),
            A_words('tok6', 6, 'token', extra_opt='nodepth=1'), A_words('tok6L', 6, 'token', extra_opt='nodepth=1', legacy=True),
            A_words('bad5', 5, 'badutf', extra_opt='nodepth=1'), A_words('bad5L', 5, 'badutf', extra_opt='nodepth=1', legacy=True),
            A_words('esc6', 6, 'escape', extra_opt='nodepth=1'), A_words('esc6L', 6, 'escape', extra_opt='nodepth=1', legacy=True),
            A_decode('dec', 1), A_decode('decL', 1, legacy=True),
            AP('d1', [1, 2, 5, 6, 7, 8, 9], O_EVERY, [1, 2, 8, 9], [1], 1),
            AP('d2', [5, 6], [1, 7], [1, 8], [1], 2),
            AP('d1L', S_ALL, [1, 2, 9], V_ALL, [1], 1, legacy=True),
            AP('d2L', [5, 6], [1], [1, 8], [1], 2, legacy=True),
            A_merge('m1', 'merge', 2, 2, 1), A_merge('df', 'diff', 2, 2, 1), A_equal('eq', 2, triples=False),
            A_merge('m1L', 'merge', 2, 2, 1, legacy=True), A_merge('dfL', 'diff', 2, 2, 1, legacy=True),
            A_equal_legacy('eqL', 2),
        ],
        'thorough': [
            A_words('w5', 5, 'full', timeout=9000), A_words('w5L', 5, 'full', legacy=True, timeout=9000),
            A_words('bad6', 6, 'badutf', extra_opt='nodepth=1', timeout=9000), A_words('bad6L', 6, 'badutf', extra_opt='nodepth=1', legacy=True, timeout=9000),
            A_decode('dec', 2), A_decode('decL', 2, legacy=True),
            AP('d1', S_ALL, O_EVERY, V_ALL, [1], 1, timeout=9000),
            AP('d2', [5, 6, 10], [1, 7, 11], [1, 6, 8, 9], [1, 8, 9], 2, timeout=9000),
            AP('d1L', S_ALL, [1, 2, 9], V_ALL, [1], 1, legacy=True),
            AP('d2L', [5, 6, 10], [1, 2], [1, 6, 8, 9], [1, 8, 9], 2, legacy=True, timeout=9000),
            A_merge('m1', 'merge', 3, 2, 1, timeout=9000), A_merge('df', 'diff', 3, 2, 1, timeout=9000), A_equal('eq', 3, triples=False, timeout=9000),
            A_merge('m1L', 'merge', 3, 2, 1, legacy=True, timeout=9000), A_merge('dfL', 'diff', 3, 2, 1, legacy=True, timeout=9000),
            A_equal_legacy('eqL', 2),
            A_history('h3', 3, 1, 'full', rworkers=1, timeout=9000),
        ],
        'rule': 'the oracle is "the call returned" (recover() around every call, a watchdog per call); the inputs are the state spaces of the other '
                'engines, for the v5 module AND the staged legacy package: every word of the bounded JSON language (valid, first-error and '
                'truncated texts, bare and wrapped in white space) given to every []byte parameter of every entry point, as a document under '
                'five probe patches x six option sets (incl. replace "" null followed by further operations, tests against [null], copies '
                'of the root) and as a patch on six probe documents (incl. null and [null]); the full mutation table of patch documents '
                'applied whenever DecodePatch accepts; all one-operation behaviours under EVERY combination of the four option booleans x '
                'limits {0,1,5}; two-operation behaviours; the merge / diff / equal universes; only panics and hangs count, '
                'what a call returns is judged by the other properties; distinct_nontrivial counts distinct inputs',
        'exhaustive': True,
        'assumptions': PATCH_ASSUME[:1] + MERGE_ASSUME[:1] + TEXT_ASSUME[:1] + [
            'nil *ApplyOptions, hand-assembled Patch values and indices above 10^4 under EnsurePathExistsOnAdd are outside the stated domain',
            'arbitrary random bytes beyond the bounded language and the mutation tables are not claimed (DESIGN.md section 8)'],
        'required_labels': {t: ['Word_invalid', 'Word_valid_obj', 'Word_valid_null', 'Decode_true', 'Decode_false', 'AddEnsure',
                                'RemoveSkippedMember', 'CopyOverLimit', 'Merge_obj', 'Create_obj', 'Equal_true', 'TestPass']
                            for t in ('quick', 'thorough')},
    },
})



# ---------------------------------------------------------------------------------------------
# direction B stages: traces recorded from the real code, validated by TLC against spec/TraceApi.tla
# ---------------------------------------------------------------------------------------------
def _addB(prop, quick, thorough, note):
    PLANS[prop]['quick'] = list(PLANS[prop]['quick']) + quick
    PLANS[prop]['thorough'] = list(PLANS[prop]['thorough']) + thorough
    PLANS[prop]['rule'] += '; direction B: ' + note
    PLANS[prop]['assumptions'] = list(PLANS[prop]['assumptions']) + [
        'direction B samples a rich input domain with a seeded generator (VERIF_SEED); it is not exhaustive']


_TB = ('%s recorded from the real code on seeded random inputs (documents to depth 4 with member names such as "", "a/b", "m~n", "0", "-", '
       'non-ASCII and HTML-sensitive names, literals such as 1e400, -0, 0.10, 23-digit integers; %s) are validated by TLC against '
       'spec/TraceApi.tla, which judges every event with the operators of the reference modules')
_addB('C01', [B_trace('tb', 'patch', 600)], [B_trace('tb', 'patch', 12000, maxops=14)],
      _TB % ('patch traces (one event per operation, prefix by prefix)', 'patches of 1-10 operations with pointers drawn from the current document and near-misses, all option combinations'))
_addB('C05', [B_trace('tb', 'patch', 500, mode='ordered'), B_trace('tbm', 'merge', 400, mode='ordered')],
      [B_trace('tb', 'patch', 10000, mode='ordered', maxops=14), B_trace('tbm', 'merge', 6000, mode='ordered')],
      _TB % ('patch and merge traces', 'compared as ORDERED literal-exact values; merge results by the order predicate MergeOrderOK'))
_addB('C08', [B_trace('tb', 'patch', 600)], [B_trace('tb', 'patch', 12000, maxops=14)],
      _TB % ('patch traces', 'the error class of every failing operation is validated (errors.Is / errors.As projections in the event)'))
_addB('C12', [B_trace('tb', 'patch', 500)], [B_trace('tb', 'patch', 10000)],
      _TB % ('patch traces', 'a quarter of them under a random AccumulatedCopySizeLimit of 1..40, white-space-only re-spelling'))
_addB('C13', [B_trace('tb', 'patch', 500)], [B_trace('tb', 'patch', 10000)], _TB % ('patch traces', 'a quarter with AllowMissingPathOnRemove'))
_addB('C14', [B_trace('tb', 'patch', 500)], [B_trace('tb', 'patch', 10000)], _TB % ('patch traces', 'a quarter with EnsurePathExistsOnAdd'))
_addB('C02', [B_trace('tb', 'merge', 800)], [B_trace('tb', 'merge', 15000)], _TB % ('MergePatch calls', 'patches derived from the document: members nulled, recursed into, retyped, added'))
_addB('C03', [B_trace('tb', 'create', 800)], [B_trace('tb', 'create', 15000)],
      _TB % ('CreateMergePatch calls (with the library\'s own MergePatch(A, P))', 'B obtained by editing A; the produced patch is judged by IsMinimalPatch and the round trip by MP'))
_addB('C07', [B_trace('tb', 'compose', 500)], [B_trace('tb', 'compose', 8000)],
      _TB % ('MergeMergePatches calls', 'the combined patch is judged by Compose and by the law on four documents, with the reference MP and with the library\'s MergePatch'))
_addB('C06', [B_trace('tb', 'equal', 800)], [B_trace('tb', 'equal', 15000)], _TB % ('Equal calls', 'one side obtained by mutating the other, two independent spellings'))
_addB('C18', [B_trace('tbL', 'patch', 500, legacy=True)], [B_trace('tbL', 'patch', 8000, legacy=True)],
      _TB % ('patch traces of the staged legacy package', 'the trace specification is run with Dialect = "v4": operations and failures that '
             'C18 does not state (root-replacing add, copy from "", tests on strings that need escapes, any failure other than the listed '
             'kinds) end the trace as don\'t-care'))
_addB('C04', [B_trace('tb', 'patch', 400), B_trace('tbx', 'mix', 600)], [B_trace('tb', 'patch', 8000), B_trace('tbx', 'mix', 8000)],
      _TB % ('patch, merge, create, compose and equal traces', 'every call under recover(): a panic is recorded in the event and rejected'))
_addB('C16', [B_trace('ts', 'scan', 600)], [B_trace('ts', 'scan', 12000)],
      'texts of up to a few hundred bytes (random values in random spellings: escapes incl. surrogate pairs, numbers such as 1e400 and -0, nesting, '
      'half of them damaged by one byte-level edit) are given to the codec; TLC evaluates the scanner automaton AND the grammar on each text and '
      'rejects the trace unless Valid/Unmarshal/Compact/Indent agree with them')
_addB('C17', [B_trace('ts', 'scan', 600)], [B_trace('ts', 'scan', 12000)],
      'the same texts: the recorded Compact, Indent, HTMLEscape and compact-with-escaping outputs must equal the specification transducers byte for '
      'byte, decode-then-encode must reproduce the parsed value, UnmarshalWithKeys must report the keys in document order')
_addB('C15', [B_trace('tb', 'patch', 400, mode='bytes')], [B_trace('tb', 'patch', 8000, mode='bytes')],
      _TB % ('patch traces WITH the raw output bytes of every successful operation', 'the bytes are read by the specification\'s own RFC 8259 grammar '
             '(JsonText!ParseText) and must denote the reference document; with EscapeHTML on they must be free of raw < > & U+2028 U+2029'))
_addB('C17', [B_trace('tg', 'godec', 500)], [B_trace('tg', 'godec', 10000)],
      'random Go types (run-time generated struct types with tags, `,string`, embedded structs, pointers, typed slices and maps, depth 3) and JSON '
      'texts aimed at them (fitting values, wrong kinds, member names matching exactly / by case folding incl. U+212A and U+017F / not at all, repeated '
      'names, base64, int64 range) decoded with Unmarshal, Decoder and Decoder+UseNumber: TLC evaluates GoDec!Dec on the recorded type and text and '
      'rejects the trace unless the value stored and the presence of an error are what the decoding rules say')
_addB('C17', [B_trace('te', 'goenc', 800)], [B_trace('te', 'goenc', 15000)],
      'random Go values of random types (depth 3: nil and empty containers, strings of any bytes, floats in exponent form, omitempty / ,string / "-" / '
      'embedded fields, pointers, json.Number, values of types with MarshalJSON / MarshalText / RedirectMarshalJSON / TrustMarshalJSON) encoded with '
      'MarshalEscaped (both settings), MarshalIndent and an Encoder: TLC evaluates GoEnc!GoMarshal on the recorded value and rejects the trace unless '
      'the bytes are exactly those')
