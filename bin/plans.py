"""Per-property plans: which specification configs are explored and how the real code is bound to them."""
import json, os, subprocess, time
from common import Broken

VERIF = os.path.dirname(os.path.dirname(os.path.abspath(__file__)))
FINDINGS = os.path.join(VERIF, 'known_findings.json')
REPLAYS = os.path.join(VERIF, 'replays')


def _set(xs):
    return '{' + ','.join(str(x) for x in xs) + '}'


def _sset(xs):
    return '{' + ','.join('"%s"' % x for x in xs) + '}'


ALLKINDS = ['add', 'remove', 'replace', 'move', 'copy', 'test']


def A_patch(name, seeds, opts, vals, vals2, maxops, kinds=ALLKINDS, wide=1, respell=False, exhaustive=True,
            simulate=None, timeout=3000, extra_opt='', invariants=('DocOK', 'CopyBound', 'LimitZeroNeverFails'),
            properties=('OnlyCopyCounts', 'FirstFailureWins', 'NoOpSteps')):
    """Direction A on MCPatch: TLC enumerates (or simulates) behaviours, every transition is replayed."""
    def run(ctx):
        consts = {'SeedIds': _set(seeds), 'OptIds': _set(opts), 'ValIds': _set(vals), 'ValIds2': _set(vals2),
                  'MaxOps': maxops, 'OpKinds': _sset(kinds), 'WideDepth': wide, 'EmitOn': 'TRUE'}
        cfg = ctx.write_cfg('run_' + name, 'MCSpec', consts, invariants=invariants,
                            properties=() if simulate else properties, action_constraint='Emit')
        extra = []
        if simulate:
            extra = ['-simulate', 'num=%d' % simulate['num'], '-depth', str(simulate['depth']), '-seed', str(ctx.seed)]
            ctx.exhaustive = False
        if not exhaustive:
            ctx.exhaustive = False
        tlc = ctx.tlc_cmd('MCPatch', cfg, workers=16 if not simulate else simulate.get('workers', 8), extra=extra)
        replay = ctx.build('replay')
        tlclog = os.path.join(ctx.scratch, 'tlc_%s.log' % name)
        rargs = [replay, '-prop', ctx.prop, '-seed', str(ctx.seed), '-findings', FINDINGS, '-replays', REPLAYS,
                 '-tlclog', tlclog, '-leadingws=false']
        if respell:
            rargs.append('-respell')
        if extra_opt:
            rargs += ['-opt', extra_opt]
        t0 = time.time()
        p1 = subprocess.Popen(['timeout', str(timeout)] + tlc, cwd=ctx.specdir(), env=ctx.env,
                              stdout=subprocess.PIPE, stderr=subprocess.STDOUT)
        p2 = subprocess.Popen(rargs, stdin=p1.stdout, stdout=subprocess.PIPE, stderr=subprocess.PIPE, text=True, env=ctx.env)
        p1.stdout.close()
        out, err = p2.communicate()
        rc1 = p1.wait()
        if p2.returncode not in (0, 1, 3):
            raise Broken('stage %s: replayer failed (exit %d): %s' % (name, p2.returncode, err[-2000:]))
        log = open(tlclog).read() if os.path.exists(tlclog) else ''
        summ = ctx.absorb_summary(out, name)
        if p2.returncode == 3:       # a hang was reported; TLC's statistics are incomplete
            ctx.cov['stages'].append({'stage': name, 'hang': True})
            return
        if rc1 == 124:
            raise Broken('stage %s: TLC timed out after %ds' % (name, timeout))
        gen, dist = ctx.parse_tlc_log(log, name)
        ctx.cov['states'] += dist
        ctx.cov['transitions'] += summ['counters'].get('transitions', 0)
        ctx.cov['traces_validated_against_impl'] += summ['counters'].get('transitions', 0)
        ctx.cov['stages'].append({'stage': name, 'direction': 'A (TLC behaviours replayed into the code)',
                                  'tlc_states_generated': gen, 'tlc_distinct_states': dist,
                                  'transitions_replayed': summ['counters'].get('transitions', 0),
                                  'executions_of_real_code': summ['counters'].get('executions', 0),
                                  'constants': consts, 'mode': 'simulate' if simulate else 'exhaustive',
                                  'wall_s': round(time.time() - t0, 1)})
    return run


V_ALL = list(range(1, 13))
PATCH_ASSUME = [
    'bounded universe: seed documents, values and near-miss pointers of spec/MCPatch.tla; exhaustive only up to the stated depth',
    'the independent JSON reader of harness/jsonread is the projection (cross-checked against TLC and the library in C16/C17 runs)',
    'cases the statement places outside its domain are recognised by the specification (result "dc") and not compared',
]

PLANS = {
    'C01': {
        'quick': [
            A_patch('d1', [1, 2, 3, 4, 5, 6, 8, 9], [1, 2], V_ALL, [1, 2, 9], 1, respell=True),
            A_patch('d2', [5, 6], [1, 2], [1, 2, 6, 8, 9], [1, 2, 9], 2),
        ],
        'thorough': [
            A_patch('d1', [1, 2, 3, 4, 5, 6, 7, 8, 9], [1, 2], V_ALL, [1, 2, 9], 1, respell=True),
            A_patch('d2', [1, 2, 3, 4, 5, 6], [1, 2], V_ALL, [1, 2, 6, 8, 9], 2, timeout=6000),
        ],
        'rule': 'TLC enumerates all operation sequences up to the stated depth from every seed document, with pointers '
                'generated from the current document (resolvable + near-misses); each transition is executed on the real '
                'library (canonical and re-spelled texts) and the structural (member-order-insensitive, literal-exact) form of '
                'the output is compared with the specification state; distinct_nontrivial counts distinct (seed, options, '
                'operation sequence) whose behaviour changes the document or fails',
        'exhaustive': True,
        'assumptions': PATCH_ASSUME,
        'required_labels': {
            'quick': ['AddMember', 'AddExisting', 'AddInsert', 'AddAppend', 'AddRoot', 'RemoveMember', 'RemoveElem',
                      'ReplaceMember', 'ReplaceElem', 'ReplaceRoot', 'Move', 'Copy', 'TestPass', 'TestPassAbsent',
                      'TestFail', 'TestFailAbsent', 'AddBadIndex', 'AddNoParent', 'RemoveAbsentMember', 'MoveFromRoot'],
        },
    },
}
PLANS['C01']['required_labels']['thorough'] = PLANS['C01']['required_labels']['quick']


def replay_file(ctx, plan, path):
    """Re-run one recorded case (bin/check <id> --replay <file>)."""
    v = json.load(open(path))
    line = v['case'].get('line')
    if line is None:
        raise Broken('replay file has no line')
    replay = ctx.build('replay')
    rargs = [replay, '-prop', ctx.prop, '-seed', str(ctx.seed), '-replays', os.path.join(ctx.scratch, 'replays'), '-leadingws=false']
    if v['case'].get('spelling') == 'respelled':
        rargs.append('-respell')
    p = subprocess.run(rargs, input=json.dumps(line) + '\n', capture_output=True, text=True, env=ctx.env)
    print(p.stdout)
    return 1 if 'VIOLATION' in p.stdout else 0
