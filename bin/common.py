class Broken(Exception):
    """The machinery is broken or starved: exit 2, never a verdict about the code."""
