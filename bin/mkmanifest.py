#!/usr/bin/env python3
"""Regenerates /verif/MANIFEST.json from the table below (one source of truth for the interface)."""
import json, os, subprocess
VERIF = os.path.dirname(os.path.dirname(os.path.abspath(__file__)))
ALL = ['C%02d' % i for i in range(1, 21)]

TB = ('trusted base: TLC 1.8.0 evaluating spec/*.tla; the independent JSON reader harness/jsonread (projection); the Go '
      'harness that executes printed transitions; bounded universes stated in the evidence (exhaustive only inside them)')

CHECKS = {
 'C01': dict(engine='patch', ref='6/C01', technique='TLA+ reference machine Patch6902 model-checked by TLC; every transition of the bounded '
             'model replayed into the real Apply and compared structurally (direction A)',
             text='TLC enumerates ALL operation sequences up to depth 1 (all seeds) / 2 (small seeds) / 3 (thorough, empty roots) of the RFC 6902 '
                  'reference machine, with pointers generated from the current document (every resolvable pointer plus the near-misses the '
                  'property lists) and both SupportNegativeIndices settings; each of the ~5*10^5 transitions is executed on the library built '
                  'from /repo and success/failure plus the literal-exact structural value are compared after every prefix. Exhaustive inside '
                  'the stated universe; beyond it nothing is claimed.'),
 'C05': dict(engine='patch', ref='6/C05', technique='TLC action properties OrderPreserved/LiteralsCarried on Patch6902 + replay of every '
             'transition with ordered, literal-exact comparison',
             text='Same bounded exhaustive exploration as C01, but the comparison keeps member order and number literals (ordered form of the '
                  'independent reader); the empty patch is replayed on every seed; TLC checks on the specification that survivors keep their '
                  'relative order, created members come last and untouched leaves are carried over. The MergePatch half of the statement is '
                  'checked by the merge engine (see C02) with the order predicate.'),
 'C08': dict(engine='patch', ref='6/C08', technique='TLC invariants FirstFailureWins etc. on Patch6902 with error classes + replay of every failing '
             'transition (errors.Is/As classification, tails after the failing operation)',
             text='All 11 option combinations x all one-operation behaviours on every seed and two-operation behaviours on small seeds: for every '
                  'failing behaviour the real Apply must return (nil, err) with the error class the specification assigns to the first failing '
                  'operation (TestFailed <=> errors.Is ErrTestFailed, CopyLimit <=> *AccumulatedCopySizeError, Missing => errors.Is ErrMissing), '
                  'also with three different tails appended; every all-success behaviour must return no error.'),
 'C12': dict(engine='patch', ref='6/C12', technique='TLC invariants CopyBound/OnlyCopyCounts/LimitZeroNeverFails on Patch6902 + replay with limits '
             'placed at total-1, total, total+1 around the specification counter',
             text='For every successful behaviour that ends in a copy (depth <= 2 quick, <= 3 thorough, EscapeHTML on and off, sizes that depend '
                  'on escaping and compaction) the real patch is re-run with limit = total-1 (must fail with *AccumulatedCopySizeError, no '
                  'document), total, total+1, total+1000 (must succeed, same document), through the per-call option and the package default; '
                  'fixed limits 7/12/20 are explored by TLC itself. The accounting alone (CopyAcct.tla) is proved for ALL limits, sizes and '
                  'patch lengths by Apalache (inductive invariant) and TLAPS (CopyAcctProof.tla), and TLC checks in every patch stage that '
                  'the interpreter machine refines it (RefinesCopyAcct).'),
 'C13': dict(engine='patch', ref='6/C13', technique='TLC invariant SkipEquivalent (two-run equivalence) on Patch6902 + replay of both runs on the real code',
             text='TLC checks on the specification that the option-on run equals the option-off run of the patch minus the skipped removes, and '
                  'prints which removes were skipped; the replayer executes both runs on the real library and compares them with each other '
                  'and with the specification, for all one-/two-operation behaviours (three on small seeds in the thorough tier).'),
 'C14': dict(engine='patch', ref='6/C14', technique='TLC properties EnsureLookup/EnsureFrame/EnsureAgrees on Patch6902 + replay of every transition with '
             'EnsurePathExistsOnAdd',
             text='TLC proves inside the bounded universe that the specification of ensure-add puts the value at the path, changes nothing else and '
                  'agrees with plain add; the real output is then compared with that specification document for every add path generated from '
                  'the current document (chains of missing parents: object/array creation by next token, null padding, ~0/~1 names).'),
 'C15': dict(engine='patch', ref='6/C15', technique='replay of TLC-enumerated behaviours with byte-level predicates on the real output (escaping, '
             'indentation, passing tests are no-ops)',
             text='For every successful transition of the bounded model (strings and names containing < > & U+2028 quotes backslash controls '
                  'non-BMP, both EscapeHTML settings) the raw bytes are checked against the predicates of the statement; the merge outputs are '
                  'checked for well-formedness by the merge engine.'),
}

CHECKS.update({
 'C02': dict(engine='merge', ref='6/C02', technique='TLA+ definition of RFC 7396 MP model-checked by TLC (idempotence, wholesale replacement); every '
             '(document, patch) pair of the bounded universe replayed into the real MergePatch',
             text='Exhaustive over ~3*10^5 (document, patch) pairs of a bounded universe (all root types, nulls inside arrays and new objects, type '
                  'changes through three levels), two spellings each; structural comparison with the specification result, verbatim check for '
                  'literal patches, arrays unedited.'),
 'C03': dict(engine='merge', ref='6/C03', technique='TLA+ Diff/IsMinimalPatch/round-trip laws model-checked by TLC; every (A, B) pair replayed into the '
             'real CreateMergePatch and MergePatch',
             text='Exhaustive over ~3*10^5 pairs: rejection table over root kinds, minimal patch compared structurally with B\'s literals (23-digit '
                  'integers, 1 vs 1.0), round trip through the real MergePatch whenever B has no null member.'),
 'C07': dict(engine='merge', ref='6/C07', technique='TLC invariant ComposeLaw on Merge7396 (Compose, Compatible); triples replayed into the real '
             'MergeMergePatches + MergePatch',
             text='TLC checks the composition law on the specification for every compatible pair of the universe and every document; the real '
                  'combined patch is applied to the document with the real MergePatch and compared with the sequential result, and compared '
                  'with the specification\'s composition (unique up to member order).'),
})

CHECKS.update({
 'C06': dict(engine='equal', ref='6/C06', technique='TLA+ EqualVerdict (structural equality) with equivalence-relation invariants checked by TLC over all '
             'pairs/triples; pairs replayed into the real Equal in 2x2 spellings',
             text='Exhaustive over ~1.1*10^5 value pairs (null roots, nulls in arrays and as members, reordered members at two levels, swapped '
                  'elements, 1 vs 1.0 literals) x 4 spelling combinations x both argument orders; malformed texts through the C16 word universe.'),
 'C11': dict(engine='decode', ref='6/C11', technique='TLA+ predicate Accepts over the full single-mutation table (thorough: all double mutations), TLC-enumerated; '
             'each document replayed into the real DecodePatch, accessors and Apply',
             text='The accept/reject boundary has one clause per (kind x member x JSON type); the universe is exhaustive for single mutations of all '
                  'six kinds, so every clause is exercised on both sides; accessors are compared with the members (numbers by literal).'),
})

CHECKS.update({
 'C16': dict(engine='text', ref='6/C16', technique='TLA+ transcription of the scanner automaton (Scanner.tla) checked by TLC against a declarative RFC 8259 '
             'grammar (JsonText.tla) on every word of a bounded language; every word replayed through the codec and all public entry points',
             text='Language equality of the scanner PDA and the RFC grammar is model-checked for all ~6*10^4 (quick) / ~1.2*10^6 (thorough) words '
                  'whose proper prefixes are viable (9.9*10^6 words to length 8 over a 10-symbol alphabet were checked once, see DESIGN.md); each '
                  'word, bare and wrapped in white space, is executed on 19 entry points and accept/reject compared with the specification verdict.'),
 'C17': dict(engine='text', ref='6/C17', technique='byte-exact comparison of the codec\'s Compact/Indent/HTMLEscape/MarshalEscaped with the TLA+ transducers and '
             'Enc, on TLC-enumerated words and values; plus a differential comparison with encoding/json',
             text='TLC checks on the specification that the transducers accept exactly the valid texts and keep the value, and that Parse(Enc(v)) = v; '
                  'the real codec must then produce exactly the specification bytes for every word / value, report keys in document order, and '
                  'agree with encoding/json on the same inputs. Go VALUES (nil, bool, int, float, strings of any bytes, slices, []byte, maps with '
                  'string/int keys, typed slices and maps, json.Number, pointers, struct types with tag names, omitempty, string, "-", unexported and '
                  'embedded fields built with reflect.StructOf, and values of types with MarshalJSON / MarshalText / RedirectMarshalJSON / '
                  'TrustMarshalJSON) are covered by GoEnc.tla: Marshal/MarshalEscaped/MarshalIndent/Encoder must write exactly GoMarshal(v, esc), '
                  'on the enumerated universe and on recorded random values validated by TLC (TraceApi!GoEncEv). Decoding INTO typed '
                  'values is covered by GoDec.tla (decode.go\'s value/array/object/literalStore as operators: null handling, remembered type '
                  'errors vs errors that stop decoding, exact-then-folded field matching, tags, ",string", embedded structs, allocated pointers, '
                  'maps merged into, base64, int64 range, json.Number under UseNumber): Unmarshal, Decoder.Decode and Decoder.UseNumber+Decode '
                  'must store exactly the value GoDec says and report an error exactly when it says, on the enumerated universe and on '
                  'recorded random (type, text) pairs validated by TLC (TraceApi!GoDecEv). Only the token stream API is covered '
                  'differentially alone (stated in evidence).',
             note=TB + '; the differential part trusts the standard library of the installed Go release'),
})

CHECKS.update({
 'C18': dict(engine='patch', ref='6/C18', technique='the Patch6902 reference machine (TLC-enumerated) replayed into the staged legacy root package, restricted '
             'to the domain C18 states',
             text='Same bounded exhaustive exploration as C01 (depth 1 on all seeds, depth 2 on small seeds, both SupportNegativeIndices settings), '
                  'executed on the go.mod-less root package staged as a module from the working tree; behaviours outside C18\'s stated domain '
                  'are recognised syntactically / by specification label and not compared.'),
 'C19': dict(engine='merge', ref='6/C19', technique='the Merge7396 laws and universes (TLC-enumerated) replayed into the staged legacy root package, restricted to '
             'the domain C19 states',
             text='Merge application, created patches (round trip + minimality), composition law and Equal verdicts of the bounded universes are '
                  'executed on the staged legacy package inside the domain C19 states.'),
})

CHECKS.update({
 'C20': dict(engine='cli', ref='6/C20', technique='TLA+ state machine of the command (Cli.tla) model-checked by TLC; every terminal state materialised and run against '
             'the built binary',
             text='All lists of up to 3 (quick) / 4 (thorough) patch-file arguments over 9 kinds of file x 3 stdin documents: exit status, no partial '
                  'output, stderr on failure, stdout = fold of the library in command-line order (value and bytes).'),
})

CHECKS.update({
 'C09': dict(engine='process', ref='6/C09', technique='TLA+ contract History.tla (result = function of arguments, inputs unchanged) with TLC enumerating all call histories; '
             'each history replayed in one process over shared buffers and shared decoded patches',
             text='All histories of length 3 over 20 calls and of length 2 over ~110 calls (thorough: 4 / 3), including failing and malformed calls '
                  'between identical successful ones and one decoded Patch applied to several documents; result, byte identity with the first '
                  'occurrence, buffer snapshots (with guard capacity) and deep Patch snapshots are checked after every call.'),
 'C10': dict(engine='process', ref='6/C10', technique='History.tla with several processes (all call-level interleavings enumerated by TLC); goroutine-per-process replay under the Go '
             'race detector, results compared with the contract',
             text='All assignments of 3 calls to 2 processes (thorough: 3 processes, 4 calls, the full call set) over one shared Patch and shared '
                  'buffers, 16 lines in flight; results must equal the sequential contract and the race detector must stay silent.',
             note=TB + '; the Go race detector is the observer of data races (a TLA+ specification cannot decide them); silence is evidence, not proof'),
})

CHECKS.update({
 'C04': dict(engine='robust', ref='6/C04', technique='the TLC-enumerated state spaces of all other engines (words of the bounded JSON language, patch-document mutation table, '
             'operation sequences under every option combination, merge/diff/equal universes) replayed into every entry point of v5 AND the legacy '
             'package under recover() and a watchdog',
             text='The oracle is trivial (the call returned); the weight is on inputs, and those are the bounded state spaces of the specification: '
                  '~6*10^4 words x every []byte parameter, as documents under five multi-operation probe patches x six option sets and as patches on '
                  'six probe documents; ~2*10^3 mutated patch documents; ~9*10^5 one- and two-operation behaviours under all 48 option/limit '
                  'combinations; ~5*10^5 merge/diff/equal cases; both packages. Only panics and hangs count.'),
})

NA = {}


def main():
    checks = []
    for pid in ALL:
        if pid not in CHECKS:
            continue
        c = CHECKS[pid]
        checks.append({
            'property_id': pid,
            'quick_cmd': 'bin/check %s --tier quick' % pid,
            'thorough_cmd': 'bin/check %s --tier thorough' % pid,
            'evidence_file': 'evidence/%s.json' % pid,
            'replay_cmd_template': 'bin/check %s --replay {path}' % pid,
            'engine': c['engine'],
            'level_claimed': {'category': 'model_checking', 'text': c['text'], 'design_ref': 'DESIGN.md section ' + c['ref']},
            'level_note': c.get('note', TB),
            'technique': c['technique'],
        })
    na = [{'property_id': p, 'reason': NA.get(p, 'check not built yet (build in progress, DESIGN.md section 10)')}
          for p in ALL if p not in CHECKS]
    commits = subprocess.run(['git', '-C', '/repo', 'log', '--format=%h %s', '--grep', '^verif hook', '9af5111..HEAD'],
                             capture_output=True, text=True).stdout.strip().split('\n')
    m = {
        'version': 1,
        'setup_cmd': 'bin/setup',
        'hooks': {'guard': 'verif', 'enable': 'go build -tags verif',
                  'baseline_off_cmd': 'cd /repo/v5 && GOFLAGS=-mod=mod go test -vet=off -count=1 -timeout 25m ./...',
                  'source_commits': [c for c in commits if c], 'add_only': True},
        'engines': [
            {'name': 'merge', 'path': 'spec/Merge7396.tla spec/MCMerge.tla harness/cmd/replay', 'serves_properties': ['C02', 'C03', 'C05', 'C07'],
             'kind_free_text': 'TLA+ definitions of RFC 7396 apply/create/compose with their laws, universe enumerated by TLC and replayed'},
            {'name': 'equal', 'path': 'spec/Equal.tla spec/MCEqual.tla', 'serves_properties': ['C06'], 'kind_free_text': 'structural equality as a TLA+ relation'},
            {'name': 'decode', 'path': 'spec/DecodePatch.tla spec/MCDecode.tla', 'serves_properties': ['C11'], 'kind_free_text': 'acceptance predicate of RFC 6902 patch documents and its mutation table'},
            {'name': 'text', 'path': 'spec/Scanner.tla spec/JsonText.tla spec/JsonEnc.tla spec/MCScanner.tla spec/MCCodec.tla', 'serves_properties': ['C16', 'C17', 'C04', 'C06'],
             'kind_free_text': 'scanner push-down automaton and its transducers transcribed to TLA+, declarative grammar, encoder spelling'},
            {'name': 'cli', 'path': 'spec/Cli.tla', 'serves_properties': ['C20'], 'kind_free_text': 'state machine of cmd/json-patch'},
            {'name': 'process', 'path': 'spec/History.tla', 'serves_properties': ['C09', 'C10'], 'kind_free_text': 'the API as a set of pure calls over shared buffers; sequential histories and multi-process interleavings'},
            {'name': 'robust', 'path': 'harness/cmd/replay (prop C04)', 'serves_properties': ['C04'], 'kind_free_text': 'every family of the replayer run with the panic/hang oracle on both packages'},
            {'name': 'patch', 'path': 'spec/Patch6902.tla spec/MCPatch.tla harness/cmd/replay', 'serves_properties':
                ['C01', 'C05', 'C08', 'C12', 'C13', 'C14', 'C15'],
             'kind_free_text': 'TLA+ reference machine for RFC 6902 application, TLC-enumerated, transitions replayed into the library'},
        ],
        'checks': checks,
        'notes': 'Exit codes: 0 held, 1 VIOLATION (real code, replay file), 2 machinery broken. known_findings.json lists repaired defects '
                 '(fixed:) and open findings. See DESIGN.md.',
        'not_applicable': na,
    }
    json.dump(m, open(os.path.join(VERIF, 'MANIFEST.json'), 'w'), indent=1)
    print('MANIFEST.json: %d checks, %d not_applicable' % (len(checks), len(na)))


if __name__ == '__main__':
    main()
