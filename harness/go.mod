module verifharness

go 1.21

require (
	github.com/evanphx/json-patch v0.0.0
	github.com/evanphx/json-patch/v5 v5.0.0
)

replace github.com/evanphx/json-patch/v5 => /repo/v5

replace github.com/evanphx/json-patch => /repo/v4stage
