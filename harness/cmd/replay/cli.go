//go:build !v4

package main

import (
	"bytes"
	"encoding/json"
	"fmt"
	"math/rand"
	"os"
	"os/exec"
	"path/filepath"
	"strings"

	"verifharness/jsonread"
	"verifharness/lib"
)

// One terminal state of Cli.tla: a scenario with the expected exit status and output.
type cliLine struct {
	Fam     string              `json:"fam"`
	Files   []string            `json:"files"`
	Stdin   json.RawMessage     `json:"stdin"`
	Exit    int                 `json:"exit"`
	Out     json.RawMessage     `json:"out"`
	Some    bool                `json:"some"`
	LibDef  bool                `json:"libdefined"`
	Patches [][]json.RawMessage `json:"patches"`
}

func (e *engine) checkCliLine(worker int, raw []byte) error {
	var ln cliLine
	if err := json.Unmarshal(raw, &ln); err != nil {
		return fmt.Errorf("bad cli line: %v", err)
	}
	cli := e.extra["cli"]
	if cli == "" {
		return fmt.Errorf("no cli binary given (-opt cli=...)")
	}
	var docText []byte
	if bytes.Contains(ln.Stdin, []byte(`"malformed"`)) {
		docText = []byte(`{"a": [1, 2`)
	} else {
		stdin, err := jsonread.FromWire(ln.Stdin)
		if err != nil {
			return err
		}
		// half of the scenarios give the document in a spelling with insignificant white space
		if hashSeed(raw, e.seed)&64 != 0 {
			docText = jsonread.Spelling{Rnd: rand.New(rand.NewSource(hashSeed(raw, e.seed))), WsOnly: true}.RenderDoc(stdin)
		} else {
			docText = jsonread.Canonical.Render(stdin)
		}
	}
	e.rep.Count("transitions", 1)
	if ln.LibDef {
		e.rep.Label(fmt.Sprintf("Cli_libdefined_files%d", len(ln.Files)))
	} else {
		e.rep.Label(fmt.Sprintf("Cli_exit%d_files%d", ln.Exit, len(ln.Files)))
	}
	dir, err := os.MkdirTemp(e.extra["tmp"], "cli")
	if err != nil {
		return err
	}
	defer os.RemoveAll(dir)
	var args []string
	var patchTexts [][]byte
	h := hashSeed(raw, e.seed)
	for j, kind := range ln.Files {
		// the same kind named twice is the SAME file given twice on the command line
		path := filepath.Join(dir, kind+".json")
		_ = j
		switch kind {
		case "notpatch":
			os.WriteFile(path, []byte(`{"a":1}`), 0o644)
		case "malformed":
			os.WriteFile(path, []byte(`[{`), 0o644)
		case "missing":
		case "dir":
			os.Mkdir(path, 0o755)
		default:
			text, _, err := renderPatch(jsonread.Canonical, ln.Patches[j])
			if err != nil {
				return err
			}
			os.WriteFile(path, text, 0o644)
			patchTexts = append(patchTexts, text)
		}
		switch (h >> uint(2*j)) & 3 {
		case 0:
			args = append(args, "-p", path)
		case 1:
			args = append(args, "--patch-file", path)
		case 2:
			args = append(args, "--patch-file="+path)
		default:
			args = append(args, "-p"+path)
		}
	}
	cmd := exec.Command(cli, args...)
	cmd.Stdin = bytes.NewReader(docText)
	var so, se bytes.Buffer
	cmd.Stdout, cmd.Stderr = &so, &se
	rerr := cmd.Run()
	e.rep.Count("executions", 1)
	code := 0
	if rerr != nil {
		if ee, ok := rerr.(*exec.ExitError); ok {
			code = ee.ExitCode()
		} else {
			return fmt.Errorf("cannot run %s: %v", cli, rerr)
		}
	}
	viol := func(kind, detail string) *lib.Violation {
		return &lib.Violation{Property: e.prop, Kind: kind, Detail: detail,
			Sig: map[string]string{"fam": "cli", "kind": kind, "lab": "", "lastop": ""},
			Case: map[string]interface{}{"fam": "cli", "files": ln.Files, "stdin": string(docText), "patch_texts": texts(patchTexts),
				"spec_exit": ln.Exit, "exit": code, "stdout": so.String(), "stderr": se.String(), "line": ln}}
	}
	// the same command line with a LARGE document on standard input (1.5 MiB: an extra member holding a long string), judged by
	// the library's own fold on that document: nothing of the command may depend on the size of its input
	if len(ln.Files) <= 1 && !bytes.Contains(ln.Stdin, []byte(`"malformed"`)) {
		if sv, perr := jsonread.FromWire(ln.Stdin); perr == nil && sv.T == "obj" && !sv.HasDupKeys() {
			big := sv.Clone()
			big.M = append(big.M, jsonread.M("zzpad", jsonread.Str(strings.Repeat("x", 3<<19))))
			bigText := jsonread.Canonical.Render(big)
			c2 := exec.Command(cli, args...)
			c2.Stdin = bytes.NewReader(bigText)
			var so2, se2 bytes.Buffer
			c2.Stdout, c2.Stderr = &so2, &se2
			code2 := 0
			if rerr2 := c2.Run(); rerr2 != nil {
				if ee, ok := rerr2.(*exec.ExitError); ok {
					code2 = ee.ExitCode()
				} else {
					return fmt.Errorf("cannot run %s: %v", cli, rerr2)
				}
			}
			e.rep.Count("executions", 1)
			e.rep.Label("Cli_large_stdin")
			ok2, out2 := true, bigText
			for _, pt := range patchTexts {
				o, aerr, derr := lib.ApplyDefaults(out2, pt, 0, true)
				if aerr != nil || derr != nil {
					ok2 = false
					break
				}
				out2 = o
			}
			allPatches := len(patchTexts) == len(ln.Files) // every file is a readable patch document
			v2 := func(kind, detail string) *lib.Violation {
				return &lib.Violation{Property: e.prop, Kind: kind, Detail: detail,
					Sig: map[string]string{"fam": "cli", "kind": kind, "lab": "", "lastop": ""},
					Case: map[string]interface{}{"fam": "cli", "files": ln.Files, "stdin": "<the stdin document with an extra member \"zzpad\" of 1.5 MiB>", "patch_texts": texts(patchTexts),
						"exit": code2, "stdout_len": so2.Len(), "stderr": se2.String(), "line": ln}}
			}
			if allPatches && (code2 == 0) != ok2 {
				e.rep.Report(v2("exit", fmt.Sprintf("large document on standard input: exit status %d, but applying the patches with the library %s", code2, map[bool]string{true: "succeeds", false: "fails"}[ok2])))
			} else if allPatches && code2 == 0 && !bytes.Equal(out2, so2.Bytes()) {
				e.rep.Report(v2("bytes", "large document on standard input: standard output differs from the library's own result"))
			} else if code2 != 0 && so2.Len() != 0 {
				e.rep.Report(v2("partial-output", "large document on standard input: the command failed but wrote to standard output"))
			}
		}
	}
	// the library's own fold, in process: decode each file, apply one after the other
	foldOK, foldOut := true, docText
	for _, pt := range patchTexts {
		out, aerr, derr := lib.ApplyDefaults(foldOut, pt, 0, true)
		if aerr != nil || derr != nil {
			foldOK = false
			break
		}
		foldOut = out
	}
	if ln.LibDef {
		// outside the domain of the operation semantics: C20 defines the expectation by the library itself
		if (code == 0) != foldOK {
			e.rep.Report(viol("exit", fmt.Sprintf("exit status %d, but applying the patches one after another with the library %s", code, map[bool]string{true: "succeeds", false: "fails"}[foldOK])))
		} else if code == 0 && !bytes.Equal(foldOut, so.Bytes()) {
			e.rep.Report(viol("bytes", fmt.Sprintf("standard output differs from the library's own result %q", foldOut)))
		} else if code != 0 && (so.Len() != 0 || se.Len() == 0) {
			e.rep.Report(viol("partial-output", "the command failed but wrote to standard output, or reported nothing on standard error"))
		}
		e.rep.Nontrivial(fmt.Sprint(ln.Files) + string(ln.Stdin))
		return nil
	}
	if (code == 0) != (ln.Exit == 0) {
		e.rep.Report(viol("exit", fmt.Sprintf("exit status %d, the specification expects %d", code, ln.Exit)))
		return nil
	}
	if code != 0 {
		if so.Len() != 0 {
			e.rep.Report(viol("partial-output", "the command failed but wrote to standard output"))
		}
		if se.Len() == 0 {
			e.rep.Report(viol("silent-failure", "the command failed without reporting an error on standard error"))
		}
	} else {
		want, err := jsonread.FromWire(ln.Out)
		if err != nil {
			return err
		}
		got, perr := jsonread.Parse(so.Bytes())
		if perr != nil || got.CanonKey() != want.CanonKey() {
			e.rep.Report(viol("value", "standard output is not the document the patches produce in command-line order"))
			return nil
		}
		// exactly what the library produces when the patches are applied one after another
		if !foldOK {
			return fmt.Errorf("in-process fold failed where the command and the specification succeed")
		}
		if !bytes.Equal(foldOut, so.Bytes()) {
			e.rep.Report(viol("bytes", fmt.Sprintf("standard output differs from the library's own result %q", foldOut)))
		}
	}
	e.rep.Nontrivial(fmt.Sprint(ln.Files) + string(ln.Stdin))
	if len(ln.Files) >= 2 {
		e.rep.Sample(map[string]interface{}{"files": ln.Files, "stdin": string(docText), "spec_exit": ln.Exit})
	}
	return nil
}
