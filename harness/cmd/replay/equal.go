package main

import (
	"encoding/json"
	"fmt"
	"math/rand"

	"verifharness/jsonread"
	"verifharness/lib"
)

type equalLine struct {
	Fam string          `json:"fam"`
	A   json.RawMessage `json:"a"`
	B   json.RawMessage `json:"b"`
	Eq  bool            `json:"eq"`
	Dc  bool            `json:"dc"`
}

func (e *engine) checkEqualLine(worker int, raw []byte) error {
	var ln equalLine
	if err := json.Unmarshal(raw, &ln); err != nil {
		return fmt.Errorf("bad equal line: %v", err)
	}
	a, err := jsonread.FromWire(ln.A)
	if err != nil {
		return err
	}
	b, err := jsonread.FromWire(ln.B)
	if err != nil {
		return err
	}
	e.rep.Count("transitions", 1)
	if lib.Dialect == "v4" && e.prop != "C04" {
		// C19: object- and array-rooted texts that contain no escaped characters
		container := func(v *jsonread.Value) bool { return v.T == "obj" || v.T == "arr" }
		if !container(a) || !container(b) || hasAwkwardString(a) || hasAwkwardString(b) {
			e.rep.Label("LegacyOutsideDomain")
			return nil
		}
	}
	if ln.Dc {
		e.rep.Label("Equal_dc")
		return nil
	}
	e.rep.Label(fmt.Sprintf("Equal_%v", ln.Eq))
	if a.T == "null" || b.T == "null" {
		e.rep.Label("Equal_nullroot")
	}
	rnd := rand.New(rand.NewSource(hashSeed(raw, e.seed)))
	rs := jsonread.Spelling{Rnd: rnd, WsOnly: lib.Dialect == "v4"}
	ta := [][]byte{jsonread.Canonical.Render(a), rs.RenderDoc(a)}
	tb := [][]byte{jsonread.Canonical.Render(b), rs.RenderDoc(b)}
	for i, x := range ta {
		for j, y := range tb {
			for _, flip := range []bool{false, true} {
				p, q := x, y
				if flip {
					p, q = y, x
				}
				var got bool
				viol := func(kind, detail string) *lib.Violation {
					return &lib.Violation{Property: e.prop, Kind: kind, Detail: detail,
						Sig:  map[string]string{"fam": "equal", "kind": kind, "lab": "", "lastop": ""},
						Case: map[string]interface{}{"fam": "equal", "a_text": string(p), "b_text": string(q), "spec_eq": ln.Eq, "got": got, "line": ln, "spell": []int{i, j}}}
				}
				pan := e.wd.Guard(worker, func() *lib.Violation { return viol("hang", "") }, func() { got = lib.Equal(p, q) })
				e.rep.Count("executions", 1)
				if pan != "" {
					e.rep.Report(viol("panic", "Equal panicked: "+firstLine(pan)))
					return nil
				}
				if got != ln.Eq {
					e.rep.Report(viol("verdict", fmt.Sprintf("Equal returned %v, structural equality is %v", got, ln.Eq)))
					return nil
				}
			}
		}
	}
	e.rep.Nontrivial(string(ln.A) + "|" + string(ln.B))
	if a.T == b.T && (a.T == "obj" || a.T == "arr") {
		e.rep.Sample(map[string]interface{}{"a": string(ta[1]), "b": string(tb[1]), "spec_eq": ln.Eq})
	}
	return nil
}
