//go:build v4

package main

import "verifharness/lib"

// the legacy package uses the standard library's codec: nothing of its own to judge
func codecAcceptance(text []byte, v bool, expect func(string, bool, bool, func() bool)) {}

func wordCodecHook(e *engine, ln *wordLine, text []byte, viol func(string, string, map[string]interface{}) *lib.Violation,
	try func(string, func() bool) (bool, bool)) {
}
