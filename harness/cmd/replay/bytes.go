package main

import (
	"bytes"
	"fmt"
	"strings"
	"unicode/utf8"

	"verifharness/jsonread"
	"verifharness/lib"
)

// ---------------------------------------------------------------------------
// C15: predicates on raw output bytes.  They are byte scans over a text that the
// independent reader has already accepted; they know JSON string syntax only.
// ---------------------------------------------------------------------------

// stringEscapes walks the string tokens of a well-formed JSON text and calls f for every
// escape sequence (esc = the text after the backslash, e.g. "u003c", "n") and raw for every
// raw (unescaped) byte inside strings.  Outside strings it calls outside(byte).
func walkJSON(text []byte, esc func(string), raw func(byte), outside func(byte)) {
	in := false
	for i := 0; i < len(text); i++ {
		c := text[i]
		if !in {
			if c == '"' {
				in = true
			} else if outside != nil {
				outside(c)
			}
			continue
		}
		switch c {
		case '"':
			in = false
		case '\\':
			if i+1 < len(text) && text[i+1] == 'u' && i+5 < len(text) {
				esc(strings.ToLower(string(text[i+1 : i+6])))
				i += 5
			} else if i+1 < len(text) {
				esc(string(text[i+1 : i+2]))
				i++
			}
		default:
			raw(c)
		}
	}
}

var htmlEscapes = map[string]byte{"u003c": '<', "u003e": '>', "u0026": '&'}

// rawHTML reports a <, >, & or U+2028/U+2029 that appears unescaped anywhere in the text.
func rawHTML(text []byte) string {
	for _, c := range []string{"<", ">", "&", "\u2028", "\u2029"} {
		if bytes.Contains(text, []byte(c)) {
			return fmt.Sprintf("%q", c)
		}
	}
	return ""
}

// htmlEscaped reports an escape sequence for <, > or & inside a string of the text.
func htmlEscaped(text []byte) string {
	found := ""
	walkJSON(text, func(e string) {
		if _, ok := htmlEscapes[e]; ok && found == "" {
			found = `\` + e
		}
	}, func(byte) {}, nil)
	return found
}

// normHTML rewrites the escapes of <, >, & inside strings to the raw characters.
func normHTML(text []byte) []byte {
	var out []byte
	in := false
	for i := 0; i < len(text); i++ {
		c := text[i]
		if !in {
			if c == '"' {
				in = true
			}
			out = append(out, c)
			continue
		}
		switch c {
		case '"':
			in = false
			out = append(out, c)
		case '\\':
			if i+5 < len(text) && text[i+1] == 'u' {
				if r, ok := htmlEscapes[strings.ToLower(string(text[i+1:i+6]))]; ok {
					out = append(out, r)
				} else {
					out = append(out, text[i:i+6]...)
				}
				i += 5
			} else {
				if i+1 < len(text) {
					out = append(out, c, text[i+1])
				} else {
					out = append(out, c)
				}
				i++
			}
		default:
			out = append(out, c)
		}
	}
	return out
}

// stripWS removes the white space outside strings.
func stripWS(text []byte) []byte {
	var out []byte
	in := false
	for i := 0; i < len(text); i++ {
		c := text[i]
		if in {
			out = append(out, c)
			if c == '\\' && i+1 < len(text) {
				out = append(out, text[i+1])
				i++
			} else if c == '"' {
				in = false
			}
			continue
		}
		if c == ' ' || c == '\t' || c == '\n' || c == '\r' {
			continue
		}
		if c == '"' {
			in = true
		}
		out = append(out, c)
	}
	return out
}

// indentShape checks that every line of an indented text starts with depth x indent,
// where depth is the nesting level at that line (a line that starts with a closing
// bracket belongs to the enclosing level).  Returns "" or a description.
func indentShape(text []byte, indent string) string {
	depth := 0
	lines := bytes.Split(text, []byte("\n"))
	for li, line := range lines {
		rest := bytes.TrimLeft(line, " \t")
		lead := line[:len(line)-len(rest)]
		d := depth
		if len(rest) > 0 && (rest[0] == '}' || rest[0] == ']') {
			d--
		}
		if d < 0 {
			return fmt.Sprintf("line %d closes more than was opened", li+1)
		}
		if string(lead) != strings.Repeat(indent, d) {
			return fmt.Sprintf("line %d: leading white space %q, expected %d x %q", li+1, lead, d, indent)
		}
		in := false
		for i := 0; i < len(rest); i++ {
			c := rest[i]
			if in {
				if c == '\\' {
					i++
				} else if c == '"' {
					in = false
				}
				continue
			}
			switch c {
			case '"':
				in = true
			case '{', '[':
				depth++
			case '}', ']':
				depth--
			}
		}
	}
	if depth != 0 {
		return "unbalanced brackets"
	}
	return ""
}

// checkBytes is C15 for one successful behaviour (canonically spelled inputs).
func (e *engine) checkBytes(worker int, c *patchCase, r applyResult, want *jsonread.Value, obs map[string]interface{},
	viol func(string, string, map[string]interface{}) *lib.Violation, hang func() *lib.Violation) {
	ln := c.line
	if ln.Status != "run" || c.spelling != "canonical" {
		return
	}
	out := r.out
	if !utf8.Valid(out) {
		e.rep.Report(viol("utf8", "output is not valid UTF-8", obs))
		return
	}
	if ln.Opts.Esc {
		if s := rawHTML(out); s != "" {
			e.rep.Report(viol("raw-html", "EscapeHTML is on but the output contains an unescaped "+s, obs))
		}
	} else {
		if s := htmlEscaped(out); s != "" {
			e.rep.Report(viol("html-escape-introduced", "EscapeHTML is off and the inputs contain no such escape, but the output contains "+s, obs))
		}
	}
	// the other escape setting: same bytes after normalising the escapes of < > &
	o2 := ln.Opts
	o2.Esc = !o2.Esc
	r2 := e.runApply(worker, c.docText, c.patch, o2, false, hang)
	if r2.pan != "" || r2.aerr != nil {
		e.rep.Report(viol("esc-outcome", "flipping EscapeHTML changed the outcome of the patch: "+errString(r2.aerr)+firstLine(r2.pan), obs))
	} else if !bytes.Equal(normHTML(out), normHTML(r2.out)) {
		e.rep.Report(viol("esc-changes-more", "EscapeHTML on/off outputs differ in more than the spelling of < > &",
			map[string]interface{}{"this": string(out), "other": string(r2.out), "esc": ln.Opts.Esc}))
	}
	// ApplyIndent = Apply re-indented
	for _, ind := range []string{" ", "\t", "  "} {
		var outI []byte
		var errI error
		pan := e.wd.Guard(worker, hang, func() { outI, errI, _ = lib.Apply(c.docText, c.patch, ln.Opts, ind) })
		e.rep.Count("executions", 1)
		obsI := map[string]interface{}{"indent": ind, "apply": string(out), "apply_indent": string(outI), "err": errString(errI)}
		if pan != "" {
			e.rep.Report(viol("panic", "ApplyIndent panicked: "+firstLine(pan), obsI))
			continue
		}
		if errI != nil {
			e.rep.Report(viol("indent-outcome", "Apply succeeds but ApplyIndent fails: "+errI.Error(), obsI))
			continue
		}
		if _, err := jsonread.Parse(outI); err != nil {
			e.rep.Report(viol("malformed-output", "ApplyIndent output is not well-formed JSON: "+err.Error(), obsI))
			continue
		}
		if !bytes.Equal(stripWS(outI), out) {
			e.rep.Report(viol("indent-value", "ApplyIndent output differs from Apply output in more than insignificant white space", obsI))
			continue
		}
		if s := indentShape(outI, ind); s != "" {
			e.rep.Report(viol("indent-shape", "ApplyIndent output is not indented by depth x indent: "+s, obsI))
		}
	}
	// passing tests leave the output bytes as they are without them
	var kept []string
	ntest := 0
	for i, op := range c.ops {
		if op.Op == "test" {
			ntest++
		} else {
			kept = append(kept, c.opTexts[i])
		}
	}
	if ntest > 0 {
		patch := joinPatch(kept)
		r3 := e.runApply(worker, c.docText, patch, ln.Opts, false, hang)
		e.rep.Label("TestNoOpPairs")
		if r3.pan != "" || r3.aerr != nil || !bytes.Equal(r3.out, out) {
			e.rep.Report(viol("test-changes-bytes", "the same patch without its passing test operations gives different output bytes",
				map[string]interface{}{"with_tests": string(out), "without_tests": string(r3.out), "patch_without": string(patch), "err": errString(r3.aerr)}))
		}
	}
}
