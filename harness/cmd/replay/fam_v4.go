//go:build v4

package main

var v5Families = map[string]func(*engine, int, []byte) error{}
