package main

import (
	stdjson "encoding/json"
	"fmt"
	"strings"
	"sync"

	"verifharness/jsonread"
	"verifharness/lib"
)

// One printed transition of MCScanner: a word with the specification's verdicts.
type wordLine struct {
	Fam        string             `json:"fam"`
	W          []int              `json:"w"`
	Valid      bool               `json:"valid"`
	Val        stdjson.RawMessage `json:"val"`
	Root       string             `json:"root"`
	PatchOK    bool               `json:"patchok"`
	CreateKind string             `json:"createkind"`
	EqOne      bool               `json:"eqone"`
	Compact    []int              `json:"compact"`
	CompactEsc []int              `json:"compactesc"`
	Indent     []int              `json:"indent"`
	IndentP    []int              `json:"indentp"`
	HTMLEsc    []int              `json:"htmlesc"`
	MaxDepth   int                `json:"maxdepth"`
	Dead       bool               `json:"dead"` // the scanner automaton is in its error state: no continuation is well-formed
	noProbes   bool               // the nesting-limit texts: one probe patch only (they are 50 kB each)
}

func toBytes(a []int) []byte {
	b := make([]byte, len(a))
	for i, c := range a {
		b[i] = byte(c)
	}
	return b
}

func (e *engine) checkWordLine(worker int, raw []byte) error {
	var ln wordLine
	if err := stdjson.Unmarshal(raw, &ln); err != nil {
		return fmt.Errorf("bad word line: %v", err)
	}
	w := toBytes(ln.W)
	e.rep.Count("transitions", 1)
	if ln.Valid {
		e.rep.Label("Word_valid_" + ln.Root)
	} else {
		e.rep.Label("Word_invalid")
	}
	e.rep.Nontrivial(string(w))
	if ln.Valid && (ln.Root == "obj" || ln.Root == "arr") || !ln.Valid && len(w) >= 3 {
		e.rep.Sample(map[string]interface{}{"word": string(w), "spec_valid": ln.Valid, "spec_root": ln.Root})
	}
	if len(w) == 0 && ln.MaxDepth > 0 && (e.prop == "C16" || e.prop == "C04") && e.extra["nodepth"] == "" {
		e.depthLimit(worker, ln.MaxDepth)
	}
	// the independent reader must agree with the specification's grammar (projection self-check)
	if jsonread.Valid(w) != ln.Valid {
		return fmt.Errorf("projection self-check: independent reader and spec grammar disagree on %q (spec %v)", w, ln.Valid)
	}
	variants := [][]byte{w}
	if e.extra["wrap"] != "0" {
		variants = append(variants, append(append([]byte("\n\t "), w...), []byte(" \r\n")...))
		variants = append(variants, append(append([]byte("\r\n"), w...), []byte("\t")...))
	}
	// a word at which the specification's automaton has given up (ErrorAbsorbs: no continuation is well-formed) is
	// also tried with the continuations that would complete it had the offending byte been let through
	full := len(variants)
	if ln.Dead && (e.prop == "C16" || e.prop == "C04") {
		for _, suf := range completions {
			variants = append(variants, append(append([]byte{}, w...), suf...))
		}
	}
	for vi, t := range variants {
		text := t
		viol := func(kind, detail string, extra map[string]interface{}) *lib.Violation {
			c := map[string]interface{}{"fam": "word", "text": string(text), "text_bytes": jsonread.BytesWire(text), "spec_valid": ln.Valid,
				"spec_root": ln.Root, "variant": vi, "line": ln}
			for k, v := range extra {
				c[k] = v
			}
			return &lib.Violation{Property: e.prop, Kind: kind, Detail: detail,
				Sig: map[string]string{"fam": "word", "kind": kind, "lab": "", "lastop": "", "api": fmt.Sprint(extra["api"]), "empty": fmt.Sprint(len(text) == 0)}, Case: c}
		}
		hang := func() *lib.Violation { return viol("hang", "", nil) }
		// guarded call returning "accepted"
		try := func(api string, f func() bool) (accepted bool, ok bool) {
			pan := e.wd.Guard(worker, hang, func() { accepted = f() })
			e.rep.Count("executions", 1)
			if pan != "" {
				e.rep.Report(viol("panic", api+" panicked: "+firstLine(pan), map[string]interface{}{"api": api, "panic": pan}))
				return false, false
			}
			return accepted, true
		}
		expect := func(api string, want bool, dc bool, f func() bool) {
			got, ok := try(api, f)
			if !ok || dc {
				return
			}
			if got != want {
				if want {
					e.rep.Report(viol("rejects-wellformed", api+" rejects a well-formed text of the right shape", map[string]interface{}{"api": api}))
				} else {
					e.rep.Report(viol("accepts-illformed", api+" accepts a text it must reject (ill-formed, or not of the required shape)", map[string]interface{}{"api": api}))
				}
			}
		}
		if vi >= full {
			e.rep.Label("Word_dead_completed")
			codecAcceptance(text, false, expect)
			expect("DecodePatch", false, false, func() bool { _, err := lib.DecodePatch(text); return err == nil })
			expect("Equal(w,w)", false, false, func() bool { return lib.Equal(text, text) })
			expect("MergePatch(document)", false, false, func() bool { _, err := lib.MergePatch(text, emptyObj); return err == nil })
			continue
		}
		switch e.prop {
		case "C16", "C04", "C06":
			e.wordAcceptance(&ln, text, expect, try)
		case "C17":
			if vi == 0 {
				wordCodecHook(e, &ln, text, viol, try)
			}
		}
	}
	return nil
}

var completions = [][]byte{[]byte(`"`), []byte(`0"`), []byte(`00"`), []byte(`000"`), []byte(`"]`), []byte(`"}`), []byte(`]`), []byte(`}`),
	[]byte(`1]`), []byte(`:1}`), []byte(`":1}`), []byte(`1`), []byte(`e1`), []byte(`ull`), []byte(`,1]`)}

var emptyObj = []byte(`{}`)
var emptyPatch = []byte(`[]`)
var one = []byte(`1`)

// wordAcceptance: accept/reject of the codec and of every public entry point (C16; C04 and C06
// use the same calls for their panic / verdict clauses).
func (e *engine) wordAcceptance(ln *wordLine, text []byte, expect func(string, bool, bool, func() bool), try func(string, func() bool) (bool, bool)) {
	v := ln.Valid
	isNull := v && ln.Root == "null"
	if e.prop != "C06" {
		codecAcceptance(text, v, expect)
		expect("DecodePatch", v && ln.PatchOK, isNull, func() bool { _, err := lib.DecodePatch(text); return err == nil })
		container := v && (ln.Root == "obj" || ln.Root == "arr")
		expect("Apply(document)", container, false, func() bool {
			out, aerr, derr := lib.Apply(text, emptyPatch, lib.Opts{Neg: true, Esc: true}, "")
			return derr == nil && aerr == nil && out != nil
		})
		expect("MergePatch(document)", v, isNull, func() bool { _, err := lib.MergePatch(text, emptyObj); return err == nil })
		expect("MergePatch(patch)", v, false, func() bool { _, err := lib.MergePatch(emptyObj, text); return err == nil })
		expect("MergeMergePatches(first)", v, isNull, func() bool { _, err := lib.MergeMergePatches(text, emptyObj); return err == nil })
		expect("MergeMergePatches(second)", v, false, func() bool { _, err := lib.MergeMergePatches(emptyObj, text); return err == nil })
		expect("CreateMergePatch", v && (ln.CreateKind == "obj" || ln.CreateKind == "arr"), ln.CreateKind == "dc",
			func() bool { _, err := lib.CreateMergePatch(text, text); return err == nil })
	}
	if e.prop == "C04" {
		// the oracle of C04 is "the call returned": use every word as a document under real operations,
		// as a patch on the probe documents, with every option combination, and through ApplyIndent
		for pi, pt := range probePatches {
			for oi, o := range probeOpts {
				if !lib.Supported(o) {
					continue
				}
				if (!v || ln.noProbes) && (pi > 0 || oi > 0) {
					continue // an ill-formed document never reaches the operations: one probe is enough
				}
				try("Apply(document, probe patch)", func() bool { _, aerr, derr := lib.Apply(text, pt, o, ""); return aerr == nil && derr == nil })
			}
		}
		try("ApplyIndent(document)", func() bool {
			_, aerr, derr := lib.Apply(text, probePatches[0], lib.Opts{Neg: true, Esc: true}, "\t")
			return aerr == nil && derr == nil
		})
		try("DecodePatch+Apply(patch)", func() bool {
			p, err := lib.DecodePatch(text)
			if err != nil {
				return false
			}
			for _, k := range p {
				k.Kind()
				k.Path()
				k.From()
				k.ValueInterface()
			}
			for _, d := range probeDocs {
				for _, o := range probeOpts {
					if lib.Supported(o) {
						lib.ApplyDecoded(p, d, o, "")
					}
				}
			}
			return true
		})
		try("MergePatch(w,w)", func() bool { _, err := lib.MergePatch(text, text); return err == nil })
		try("MergeMergePatches(w,w)", func() bool { _, err := lib.MergeMergePatches(text, text); return err == nil })
		try("CreateMergePatch(w,{})", func() bool { _, err := lib.CreateMergePatch(text, emptyObj); return err == nil })
		try("CreateMergePatch({},w)", func() bool { _, err := lib.CreateMergePatch(emptyObj, text); return err == nil })
		// every word against merge documents that have members, null members and nested containers, on either side
		for _, m := range probeMerge {
			try("MergePatch(w, probe)", func() bool { _, err := lib.MergePatch(text, m); return err == nil })
			try("MergePatch(probe, w)", func() bool { _, err := lib.MergePatch(m, text); return err == nil })
			try("MergeMergePatches(w, probe)", func() bool { _, err := lib.MergeMergePatches(text, m); return err == nil })
			try("MergeMergePatches(probe, w)", func() bool { _, err := lib.MergeMergePatches(m, text); return err == nil })
			try("CreateMergePatch(w, probe)", func() bool { _, err := lib.CreateMergePatch(text, m); return err == nil })
			try("CreateMergePatch(probe, w)", func() bool { _, err := lib.CreateMergePatch(m, text); return err == nil })
		}
	}
	expect("Equal(w,w)", v, false, func() bool { return lib.Equal(text, text) })
	expect("Equal(w,1)", ln.EqOne, false, func() bool { return lib.Equal(text, one) })
	expect("Equal(1,w)", ln.EqOne, false, func() bool { return lib.Equal(one, text) })
}

var probeMerge = [][]byte{
	[]byte(`{"a":1,"b":null,"c":{"d":null,"e":[null]}}`),
	[]byte(`[{"a":null},null,[1]]`),
	[]byte(`{"":{"":null}}`),
}

var probePatches = [][]byte{
	[]byte(`[{"op":"add","path":"/a","value":1},{"op":"test","path":"","value":null},{"op":"remove","path":"/a"}]`),
	[]byte(`[{"op":"test","path":"/0","value":[null]},{"op":"copy","from":"","path":"/-"}]`),
	[]byte(`[{"op":"replace","path":"","value":null},{"op":"add","path":"/0","value":1}]`),
	[]byte(`[{"op":"add","path":"/a/b/0/c","value":null},{"op":"move","from":"/a","path":"/b"},{"op":"test","path":"/b","value":{"b":[{"c":null}]}}]`),
	[]byte(`[{"op":"copy","from":"/0","path":"/1"},{"op":"test","path":"/1"},{"op":"replace","path":"/0","value":[null]},{"op":"test","path":"/0","value":[null]}]`),
	// the root replaced by null, then every kind of operation with one-token and multi-token paths
	[]byte(`[{"op":"replace","path":"","value":null},{"op":"add","path":"/3/x","value":1}]`),
	[]byte(`[{"op":"replace","path":"","value":null},{"op":"add","path":"/a/b/-","value":1}]`),
	[]byte(`[{"op":"replace","path":"","value":null},{"op":"remove","path":"/0/a"}]`),
	[]byte(`[{"op":"replace","path":"","value":null},{"op":"replace","path":"/a/0","value":1}]`),
	[]byte(`[{"op":"replace","path":"","value":null},{"op":"move","from":"/0/a","path":"/1"}]`),
	[]byte(`[{"op":"replace","path":"","value":null},{"op":"copy","from":"","path":"/a/b"}]`),
	[]byte(`[{"op":"replace","path":"","value":null},{"op":"copy","from":"","path":"/0"}]`),
	[]byte(`[{"op":"replace","path":"","value":null},{"op":"copy","from":"","path":"/a"}]`),
	[]byte(`[{"op":"replace","path":"","value":null},{"op":"move","from":"/0","path":"/a"}]`),
	[]byte(`[{"op":"replace","path":"","value":null},{"op":"test","path":"/0","value":null},{"op":"remove","path":"/-1"}]`),
	[]byte(`[{"op":"replace","path":"","value":null},{"op":"test","path":"/a/b","value":null}]`),
	[]byte(`[{"op":"add","path":"","value":null},{"op":"add","path":"/a/b","value":1},{"op":"copy","from":"","path":"/c"}]`),
	[]byte(`[{"op":"add","path":"","value":[null]},{"op":"copy","from":"/0","path":"/-"},{"op":"test","path":"","value":[null,null]},{"op":"move","from":"/0","path":"/0/x"}]`),
}

var probeOpts = []lib.Opts{
	{Neg: true, Esc: true}, {Neg: false, Esc: false}, {Neg: true, Allow: true, Ensure: true, Esc: true}, {Ensure: true}, {Allow: true, Limit: 1, Esc: true},
	{Neg: true, Limit: 5, Esc: true},
}

// depthLimit: nesting d is accepted exactly when d <= MaxDepth (the specification's scanner and grammar agree on
// that for MaxDepth = 3, checked by TLC in the depth stage; the real constant is the MaxDepth of the emitting model).
func (e *engine) depthLimit(worker int, max int) {
	// the six texts are 50 kB each and several entry points are quadratic in the nesting depth: run them side by side
	var wg sync.WaitGroup
	slot := e.nworkers
	for _, d := range []int{max - 1, max, max + 1} {
		for _, shape := range []string{"arr", "obj"} {
			wg.Add(1)
			go func(d int, shape string, worker int) {
				defer wg.Done()
				e.depthCase(worker, max, d, shape)
			}(d, shape, slot)
			slot++
		}
	}
	wg.Add(1)
	go func(worker int) {
		defer wg.Done()
		e.deepCopyCase(worker, max)
	}(slot)
	wg.Wait()
}

// deepCopyCase: nesting beyond the limit that arises INSIDE one Apply: a copy puts a 0.6*max-deep value 0.5*max levels
// below itself, a second copy duplicates the result (one re-encoded value nested deeper than max), a later operation
// walks into the duplicate.  Every input is well-formed and within the limit; the call must return.
func (e *engine) deepCopyCase(worker int, max int) {
	n, k := max*6/10, max/2
	doc := []byte(`{"a":` + strings.Repeat("[", n) + strings.Repeat("]", n) + `}`)
	patch := []byte(`[{"op":"copy","from":"/a","path":"/a` + strings.Repeat("/0", k) + `/-"},{"op":"copy","from":"/a","path":"/b"},` +
		`{"op":"add","path":"/b/0/-","value":1},{"op":"test","path":"/b","value":[]}]`)
	e.rep.Label("Depth_built_by_copy")
	viol := func(kind, detail string) *lib.Violation {
		c := map[string]interface{}{"fam": "word", "text": fmt.Sprintf("<document {\"a\": %d nested arrays}; copy /a below itself at depth %d, copy /a to /b, add /b/0/->", n, k),
			"doc_text": string(doc), "patch_text": string(patch), "depth": n + k}
		return &lib.Violation{Property: e.prop, Kind: kind, Detail: detail,
			Sig: map[string]string{"fam": "word", "kind": kind, "lab": "", "lastop": "", "api": "Apply(deep copy)", "empty": "false"}, Case: c}
	}
	pan := e.wd.Guard(worker, func() *lib.Violation { return viol("hang", "") }, func() {
		lib.Apply(doc, patch, lib.Opts{Neg: true, Esc: true}, "")
	})
	e.rep.Count("executions", 1)
	if pan != "" {
		e.rep.Report(viol("panic", "Apply panicked on a value nested deeper than the limit that its own copy operations built: "+firstLine(pan)))
	}
}

func (e *engine) depthCase(worker int, max int, d int, shape string) {
	{
		{
			var b []byte
			for i := 0; i < d; i++ {
				if shape == "arr" {
					b = append(b, '[')
				} else {
					b = append(b, `{"a":`...)
				}
			}
			if shape == "obj" {
				b = append(b[:len(b)-5], "{}"...)
				for i := 0; i < d-1; i++ {
					b = append(b, '}')
				}
			} else {
				for i := 0; i < d; i++ {
					b = append(b, ']')
				}
			}
			ln := wordLine{Fam: "word", Valid: d <= max, Root: shape, PatchOK: false, CreateKind: map[string]string{"arr": "reject", "obj": "obj"}[shape], MaxDepth: max, noProbes: true}
			if !ln.Valid {
				ln.Root, ln.CreateKind = "none", "reject"
			}
			text := b
			e.rep.Label(fmt.Sprintf("Depth_%s_%v", shape, ln.Valid))
			viol := func(kind, detail string, extra map[string]interface{}) *lib.Violation {
				c := map[string]interface{}{"fam": "word", "text": fmt.Sprintf("<%s nesting of depth %d>", shape, d), "spec_valid": ln.Valid, "depth": d, "shape": shape}
				for k, v := range extra {
					c[k] = v
				}
				return &lib.Violation{Property: e.prop, Kind: kind, Detail: fmt.Sprintf("nesting depth %d (%s): %s", d, shape, detail),
					Sig: map[string]string{"fam": "word", "kind": kind, "lab": "", "lastop": "", "api": fmt.Sprint(extra["api"]), "empty": "false"}, Case: c}
			}
			hang := func() *lib.Violation { return viol("hang", "", nil) }
			try := func(api string, f func() bool) (accepted bool, ok bool) {
				pan := e.wd.Guard(worker, hang, func() { accepted = f() })
				e.rep.Count("executions", 1)
				if pan != "" {
					e.rep.Report(viol("panic", api+" panicked: "+firstLine(pan), map[string]interface{}{"api": api}))
					return false, false
				}
				return accepted, true
			}
			expect := func(api string, want bool, dc bool, f func() bool) {
				got, ok := try(api, f)
				if !ok || dc {
					return
				}
				if got != want {
					kind := "accepts-illformed"
					if want {
						kind = "rejects-wellformed"
					}
					e.rep.Report(viol(kind, api+" disagrees with the nesting limit", map[string]interface{}{"api": api}))
				}
			}
			e.wordAcceptance(&ln, text, expect, try)
		}
	}
}
