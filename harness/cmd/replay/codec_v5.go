//go:build !v4

package main

import (
	"bytes"
	stdjson "encoding/json"
	"fmt"
	"io"
	"strings"

	codec "github.com/evanphx/json-patch/v5/verifcodec"

	"verifharness/jsonread"
	"verifharness/lib"
)

// normBF rewrites the two escapes whose spelling differs between Go releases (\b \f versus
// \u0008 \u000c) to one form, inside strings only.
func normBF(text []byte) []byte {
	s := string(text)
	s = strings.ReplaceAll(s, `\u0008`, `\b`)
	s = strings.ReplaceAll(s, `\u000c`, `\f`)
	return []byte(s)
}

// codecAcceptance: accept/reject of the embedded codec's own entry points (C16).
func codecAcceptance(text []byte, v bool, expect func(string, bool, bool, func() bool)) {
	expect("codec.Valid", v, false, func() bool { return codec.Valid(text) })
	expect("codec.Compact", v, false, func() bool { var b bytes.Buffer; return codec.Compact(&b, text) == nil })
	expect("codec.Indent", v, false, func() bool { var b bytes.Buffer; return codec.Indent(&b, text, "", " ") == nil })
	expect("codec.Unmarshal", v, false, func() bool { var x interface{}; return codec.Unmarshal(text, &x) == nil })
	if v {
		expect("codec.UnmarshalValid", true, false, func() bool { var x interface{}; return codec.UnmarshalValid(text, &x) == nil })
		expect("codec.Decoder.Decode", true, false, func() bool {
			var x interface{}
			dec := codec.NewDecoder(bytes.NewReader(text))
			dec.UseNumber() // a plain Decoder converts numbers to float64 and (like encoding/json) rejects 1e991: that is about Go numbers, not about the grammar
			return dec.Decode(&x) == nil
		})
	}
}

func wordCodecHook(e *engine, ln *wordLine, text []byte, viol func(string, string, map[string]interface{}) *lib.Violation,
	try func(string, func() bool) (bool, bool)) {
	e.wordCodec(ln, text, viol, try)
}

// wordCodec: the embedded codec is faithful (C17), judged against the specification's
// transducers (bytes) and values, and against the standard library where they overlap.
func (e *engine) wordCodec(ln *wordLine, text []byte, viol func(string, string, map[string]interface{}) *lib.Violation,
	try func(string, func() bool) (bool, bool)) {
	cmpBytes := func(api string, got []byte, gerr error, want []byte, wantOK bool) {
		if (gerr == nil) != wantOK {
			e.rep.Report(viol("codec-outcome", fmt.Sprintf("%s: error %v, specification accepts = %v", api, gerr, wantOK), map[string]interface{}{"api": api}))
			return
		}
		if wantOK && !bytes.Equal(got, want) {
			e.rep.Report(viol("codec-bytes", api+" output differs from the specification's transducer",
				map[string]interface{}{"api": api, "got": string(got), "want": string(want)}))
		}
	}
	try("codec.Compact", func() bool {
		var b bytes.Buffer
		err := codec.Compact(&b, text)
		cmpBytes("Compact", b.Bytes(), err, toBytes(ln.Compact), ln.Valid)
		var sb bytes.Buffer
		serr := stdjson.Compact(&sb, text)
		if (serr == nil) != (err == nil) || !bytes.Equal(sb.Bytes(), b.Bytes()) {
			e.rep.Report(viol("std-diff", "Compact differs from encoding/json", map[string]interface{}{"api": "Compact", "fork": b.String(), "std": sb.String()}))
		}
		return true
	})
	try("codec.Indent", func() bool {
		var b bytes.Buffer
		err := codec.Indent(&b, text, "", "\t")
		cmpBytes("Indent(\"\",\"\\t\")", b.Bytes(), err, toBytes(ln.Indent), ln.Valid)
		var b2 bytes.Buffer
		err2 := codec.Indent(&b2, text, ">", "  ")
		cmpBytes("Indent(\">\",\"  \")", b2.Bytes(), err2, toBytes(ln.IndentP), ln.Valid)
		var sb bytes.Buffer
		serr := stdjson.Indent(&sb, text, ">", "  ")
		if (serr == nil) != (err2 == nil) || !bytes.Equal(sb.Bytes(), b2.Bytes()) {
			e.rep.Report(viol("std-diff", "Indent differs from encoding/json", map[string]interface{}{"api": "Indent", "fork": b2.String(), "std": sb.String()}))
		}
		return true
	})
	try("codec.HTMLEscape", func() bool {
		var b bytes.Buffer
		codec.HTMLEscape(&b, text)
		cmpBytes("HTMLEscape", b.Bytes(), nil, toBytes(ln.HTMLEsc), true)
		return true
	})
	if !ln.Valid {
		return
	}
	want, err := jsonread.FromWire(ln.Val)
	if err != nil {
		return
	}
	try("codec.MarshalEscaped(RawMessage)", func() bool {
		// compact(escape=true) is reached through the encoder: a RawMessage is compacted with the escape flag
		out, err := codec.MarshalEscaped(codec.RawMessage(text), true)
		cmpBytes("compact(escape)", out, err, toBytes(ln.CompactEsc), true)
		out0, err0 := codec.MarshalEscaped(codec.RawMessage(text), false)
		cmpBytes("compact(no escape)", out0, err0, toBytes(ln.Compact), true)
		return true
	})
	try("codec.Unmarshal/Marshal", func() bool {
		var x interface{}
		if err := codec.Unmarshal(text, &x); err != nil {
			e.rep.Report(viol("codec-outcome", "Unmarshal rejects a well-formed text: "+err.Error(), map[string]interface{}{"api": "Unmarshal"}))
			return true
		}
		for _, esc := range []bool{true, false} {
			out, err := codec.MarshalEscaped(x, esc)
			var got *jsonread.Value
			if err == nil {
				got, err = jsonread.Parse(out)
			}
			if err != nil || got.CanonKey() != want.CanonKey() {
				e.rep.Report(viol("roundtrip", "decode then encode does not reproduce the value (numbers by literal, strings by code points)",
					map[string]interface{}{"api": "Unmarshal+MarshalEscaped", "esc": esc, "out": string(out), "err": errString(err)}))
				return true
			}
			if esc && rawHTML(out) != "" {
				e.rep.Report(viol("raw-html", "MarshalEscaped(escape) leaves "+rawHTML(out)+" unescaped", map[string]interface{}{"api": "MarshalEscaped", "out": string(out)}))
			}
		}
		// the same through UnmarshalValid
		var y interface{}
		if err := codec.UnmarshalValid(text, &y); err != nil {
			e.rep.Report(viol("codec-outcome", "UnmarshalValid fails on a well-formed text: "+err.Error(), map[string]interface{}{"api": "UnmarshalValid"}))
			return true
		}
		o1, _ := codec.Marshal(x)
		o2, _ := codec.Marshal(y)
		if !bytes.Equal(o1, o2) {
			e.rep.Report(viol("roundtrip", "Unmarshal and UnmarshalValid decode differently", map[string]interface{}{"api": "UnmarshalValid", "a": string(o1), "b": string(o2)}))
		}
		// the standard library on the same text (numbers as json.Number); \b \f spelling normalised
		var sx interface{}
		dec := stdjson.NewDecoder(bytes.NewReader(text))
		dec.UseNumber()
		if err := dec.Decode(&sx); err == nil {
			so, _ := stdjson.Marshal(sx)
			if !bytes.Equal(normBF(so), normBF(o1)) {
				e.rep.Report(viol("std-diff", "Unmarshal+Marshal differs from encoding/json", map[string]interface{}{"api": "Marshal", "fork": string(o1), "std": string(so)}))
			}
		}
		return true
	})
	if ln.Root == "obj" && !want.HasDupKeys() {
		try("codec.UnmarshalWithKeys", func() bool {
			var wantKeys []string
			for _, m := range want.M {
				wantKeys = append(wantKeys, string(m.K))
			}
			for name, f := range map[string]func([]byte, interface{}) ([]string, error){"UnmarshalWithKeys": codec.UnmarshalWithKeys, "UnmarshalValidWithKeys": codec.UnmarshalValidWithKeys} {
				m := map[string]interface{}{}
				keys, err := f(text, &m)
				if err != nil || strings.Join(keys, "\x00") != strings.Join(wantKeys, "\x00") || len(keys) != len(wantKeys) {
					e.rep.Report(viol("keys", name+" does not report the member names in document order",
						map[string]interface{}{"api": name, "keys": keys, "want": wantKeys, "err": errString(err)}))
				}
			}
			return true
		})
	}
}

// One printed state of MCCodec: a universe value with the encoder's spellings.
type encLine struct {
	Fam       string             `json:"fam"`
	V         stdjson.RawMessage `json:"v"`
	Text      []int              `json:"text"`
	SortedEsc []int              `json:"sortedesc"`
	SortedRaw []int              `json:"sortedraw"`
	Keys      [][]int            `json:"keys"`
	Tokens    []struct {
		K  string `json:"k"`
		C  int    `json:"c"`
		Cp []int  `json:"cp"`
		B  bool   `json:"b"`
	} `json:"tokens"`
	IndP []int `json:"indp"`
	IndI []int `json:"indi"`
	IndB []int `json:"indb"`
}

// streams: the texts of the enc lines a worker has seen are concatenated (white space between them)
// and decoded as ONE stream through the codec's Decoder from a reader that delivers short reads, so
// that values straddle the Decoder's buffer refills; every decoded value must be the value of its text.
type streamAcc struct {
	buf   bytes.Buffer
	wants [][]byte
	texts [][]byte
	toks  []string
}

var streams [256]streamAcc

type shortReader struct {
	data []byte
	n    int
}

func (r *shortReader) Read(p []byte) (int, error) {
	if len(r.data) == 0 {
		return 0, io.EOF
	}
	k := r.n
	if k > len(p) {
		k = len(p)
	}
	if k > len(r.data) {
		k = len(r.data)
	}
	copy(p, r.data[:k])
	r.data = r.data[k:]
	return k, nil
}

func (e *engine) streamCheck(worker int, text, want []byte, toks []string, flush bool, viol func(string, string, map[string]interface{}) *lib.Violation) {
	a := &streams[worker%256]
	a.texts = append(a.texts, append([]byte{}, text...))
	a.toks = append(a.toks, toks...)
	a.buf.Write(text)
	a.buf.WriteString([]string{" ", "\n", "\t\r\n", ""}[len(a.wants)%4])
	if len(a.wants)%4 == 3 {
		a.buf.WriteByte(' ')
	}
	a.wants = append(a.wants, want)
	if len(a.wants) < 24 && !flush {
		return
	}
	stream := append([]byte{}, a.buf.Bytes()...)
	wants := a.wants
	texts, toks := a.texts, a.toks
	a.buf.Reset()
	a.wants, a.texts, a.toks = nil, nil, nil
	// the same values as ONE array read through the token API (Token / More) with short reads: buffer refills fall on
	// structural characters, white space and literals alike
	arr := append([]byte("[ "), bytes.Join(texts, []byte(" ,\n\t"))...)
	arr = append(arr, " ]\n"...)
	wantToks := append(append([]string{"delim:["}, toks...), "delim:]")
	for _, chunk := range []int{1 << 20, 7, 64, 513} {
		dec := codec.NewDecoder(&shortReader{data: arr, n: chunk})
		dec.UseNumber()
		for i := 0; ; i++ {
			more := dec.More()
			expectMore := i < len(wantToks) && wantToks[i] != "delim:]" && wantToks[i] != "delim:}"
			t, err := dec.Token()
			if err == io.EOF && i == len(wantToks) {
				break
			}
			got := "ERR"
			if err == nil {
				got = tokenString(t)
			}
			if i >= len(wantToks) || got != wantToks[i] || (more != expectMore && i > 0 && i < len(wantToks)) {
				w := "<end>"
				if i < len(wantToks) {
					w = wantToks[i]
				}
				e.rep.Report(viol("tokens", fmt.Sprintf("Decoder.Token/More on an array of %d values (reads of %d bytes): token %d is %q (More=%v), the text has %q (More=%v): %v",
					len(texts), chunk, i, got, more, w, expectMore, err), map[string]interface{}{"api": "Decoder.Token", "stream": string(arr)}))
				return
			}
		}
		e.rep.Label("TokenStream")
	}
	for _, chunk := range []int{1 << 20, 7, 513} {
		dec := codec.NewDecoder(&shortReader{data: stream, n: chunk})
		dec.UseNumber() // number literals are kept (a plain Decoder converts to float64, as encoding/json does)
		for i, w := range wants {
			var x interface{}
			if err := dec.Decode(&x); err != nil {
				e.rep.Report(viol("stream", fmt.Sprintf("Decoder fails on value %d of a stream of %d well-formed values (reads of %d bytes): %v", i+1, len(wants), chunk, err),
					map[string]interface{}{"api": "Decoder", "stream": string(stream)}))
				return
			}
			out, err := codec.MarshalEscaped(x, false)
			if err != nil || !bytes.Equal(out, w) {
				e.rep.Report(viol("stream", fmt.Sprintf("Decoder returns another value than the text holds at position %d of a stream (reads of %d bytes)", i+1, chunk),
					map[string]interface{}{"api": "Decoder", "stream": string(stream), "got": string(out), "want": string(w)}))
				return
			}
		}
		if dec.More() {
			e.rep.Report(viol("stream", "Decoder reports more values after the last one", map[string]interface{}{"api": "Decoder", "stream": string(stream)}))
		}
		e.rep.Label("StreamDecoded")
	}
}

func tokenString(t codec.Token) string {
	switch x := t.(type) {
	case codec.Delim:
		return "delim:" + string(rune(x))
	case string:
		return "str:" + x
	case bool:
		return fmt.Sprintf("bool:%v", x)
	case nil:
		return "null"
	}
	return "num:" + fmt.Sprint(t)
}

func (e *engine) checkEncLine(worker int, raw []byte) error {
	var ln encLine
	if err := stdjson.Unmarshal(raw, &ln); err != nil {
		return fmt.Errorf("bad enc line: %v", err)
	}
	v, err := jsonread.FromWire(ln.V)
	if err != nil {
		return err
	}
	text := toBytes(ln.Text)
	e.rep.Count("transitions", 1)
	e.rep.Label("Enc_" + v.T)
	e.rep.Nontrivial(string(text))
	if v.T == "obj" && len(v.M) >= 2 {
		e.rep.Sample(map[string]interface{}{"text": string(text), "spec_sorted_escaped": string(toBytes(ln.SortedEsc))})
	}
	// projection self-check: the harness's canonical writer is the specification's Enc(v, FALSE)
	if !bytes.Equal(jsonread.Canonical.Render(v), text) {
		return fmt.Errorf("projection self-check: canonical writer %q differs from spec Enc %q", jsonread.Canonical.Render(v), text)
	}
	viol := func(kind, detail string, extra map[string]interface{}) *lib.Violation {
		c := map[string]interface{}{"fam": "enc", "text": string(text), "line": ln}
		for k, x := range extra {
			c[k] = x
		}
		return &lib.Violation{Property: e.prop, Kind: kind, Detail: detail,
			Sig: map[string]string{"fam": "enc", "kind": kind, "lab": "", "lastop": "", "api": fmt.Sprint(extra["api"])}, Case: c}
	}
	hang := func() *lib.Violation { return viol("hang", "", nil) }
	pan := e.wd.Guard(worker, hang, func() {
		var x interface{}
		if err := codec.Unmarshal(text, &x); err != nil {
			e.rep.Report(viol("codec-outcome", "Unmarshal rejects the encoder's own spelling: "+err.Error(), map[string]interface{}{"api": "Unmarshal"}))
			return
		}
		for _, c := range []struct {
			esc  bool
			want []byte
		}{{true, toBytes(ln.SortedEsc)}, {false, toBytes(ln.SortedRaw)}} {
			out, err := codec.MarshalEscaped(x, c.esc)
			if err != nil || !bytes.Equal(out, c.want) {
				e.rep.Report(viol("codec-bytes", "decode then MarshalEscaped differs from the specification's Enc (keys sorted)",
					map[string]interface{}{"api": "MarshalEscaped", "esc": c.esc, "got": string(out), "want": string(c.want), "err": errString(err)}))
			}
		}
		out, err := codec.Marshal(x)
		if err != nil || !bytes.Equal(out, toBytes(ln.SortedEsc)) {
			e.rep.Report(viol("codec-bytes", "Marshal (HTML escaping on by default) differs from Enc(v, TRUE)", map[string]interface{}{"api": "Marshal", "got": string(out)}))
		}
		// the standard library on the same text
		var sx interface{}
		dec := stdjson.NewDecoder(bytes.NewReader(text))
		dec.UseNumber()
		if err := dec.Decode(&sx); err == nil {
			so, _ := stdjson.Marshal(sx)
			if !bytes.Equal(normBF(so), normBF(out)) {
				e.rep.Report(viol("std-diff", "Unmarshal+Marshal differs from encoding/json", map[string]interface{}{"api": "Marshal", "fork": string(out), "std": string(so)}))
			}
		}
		if v.T == "obj" && !v.HasDupKeys() {
			var wantKeys []string
			for _, k := range ln.Keys {
				wantKeys = append(wantKeys, cpString(k))
			}
			m := map[string]interface{}{}
			keys, err := codec.UnmarshalWithKeys(text, &m)
			if err != nil || fmt.Sprintf("%q", keys) != fmt.Sprintf("%q", wantKeys) {
				e.rep.Report(viol("keys", "UnmarshalWithKeys does not report the member names in document order",
					map[string]interface{}{"api": "UnmarshalWithKeys", "keys": keys, "want": wantKeys}))
			}
		}
		// Decoder.Token: the token stream of the text is the specification's Tokens(v)
		{
			dec := codec.NewDecoder(bytes.NewReader(text))
			dec.UseNumber()
			var got []string
			for {
				t, err := dec.Token()
				if err != nil {
					if err != io.EOF {
						got = append(got, "ERR:"+err.Error())
					}
					break
				}
				switch x := t.(type) {
				case codec.Delim:
					got = append(got, "delim:"+string(rune(x)))
				case string:
					got = append(got, "str:"+x)
				case bool:
					got = append(got, fmt.Sprintf("bool:%v", x))
				case nil:
					got = append(got, "null")
				default:
					got = append(got, "num:"+fmt.Sprint(x))
				}
			}
			var want []string
			for _, t := range ln.Tokens {
				switch t.K {
				case "delim":
					want = append(want, "delim:"+string(rune(t.C)))
				case "str":
					want = append(want, "str:"+cpString(t.Cp))
				case "num":
					want = append(want, "num:"+cpString(t.Cp))
				case "bool":
					want = append(want, fmt.Sprintf("bool:%v", t.B))
				default:
					want = append(want, "null")
				}
			}
			if strings.Join(got, "\x00") != strings.Join(want, "\x00") {
				e.rep.Report(viol("tokens", "Decoder.Token does not yield the token stream of the text",
					map[string]interface{}{"api": "Decoder.Token", "got": got, "want": want}))
			}
		}
		// Encoder.SetIndent: prefix only, indent only, both
		for _, c := range []struct {
			prefix, indent string
			want           []byte
		}{{">", "", toBytes(ln.IndP)}, {"", "\t", toBytes(ln.IndI)}, {">>", " ", toBytes(ln.IndB)}} {
			var ib bytes.Buffer
			ienc := codec.NewEncoder(&ib)
			ienc.SetEscapeHTML(false)
			ienc.SetIndent(c.prefix, c.indent)
			if err := ienc.Encode(x); err != nil || !bytes.Equal(bytes.TrimSuffix(ib.Bytes(), []byte("\n")), c.want) {
				e.rep.Report(viol("codec-bytes", fmt.Sprintf("Encoder with SetIndent(%q, %q) differs from Indent(Enc(v), prefix, indent)", c.prefix, c.indent),
					map[string]interface{}{"api": "Encoder.SetIndent", "got": ib.String(), "want": string(c.want)}))
			}
		}
		// stream round trip: Encoder then Decoder
		var buf bytes.Buffer
		enc := codec.NewEncoder(&buf)
		enc.SetEscapeHTML(false)
		if err := enc.Encode(x); err != nil || !bytes.Equal(bytes.TrimSuffix(buf.Bytes(), []byte("\n")), toBytes(ln.SortedRaw)) {
			e.rep.Report(viol("codec-bytes", "Encoder (EscapeHTML off) differs from Enc(v, FALSE)", map[string]interface{}{"api": "Encoder", "got": buf.String()}))
		}
	})
	e.rep.Count("executions", 1)
	if pan != "" {
		e.rep.Report(viol("panic", "codec panicked: "+firstLine(pan), map[string]interface{}{"api": "codec"}))
		return nil
	}
	var lineToks []string
	for _, t := range ln.Tokens {
		switch t.K {
		case "delim":
			lineToks = append(lineToks, "delim:"+string(rune(t.C)))
		case "str":
			lineToks = append(lineToks, "str:"+cpString(t.Cp))
		case "num":
			lineToks = append(lineToks, "num:"+cpString(t.Cp))
		case "bool":
			lineToks = append(lineToks, fmt.Sprintf("bool:%v", t.B))
		default:
			lineToks = append(lineToks, "null")
		}
	}
	pan = e.wd.Guard(worker, hang, func() { e.streamCheck(worker, text, toBytes(ln.SortedRaw), lineToks, false, viol) })
	if pan != "" {
		e.rep.Report(viol("panic", "Decoder panicked on a stream: "+firstLine(pan), map[string]interface{}{"api": "Decoder"}))
	}
	return nil
}
