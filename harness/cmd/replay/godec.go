//go:build !v4

package main

import (
	"bytes"
	stdjson "encoding/json"
	"fmt"
	"math"
	"reflect"
	"sort"
	"strconv"

	codec "github.com/evanphx/json-patch/v5/verifcodec"

	"verifharness/lib"
)

// One state of MCGoDec: a Go type (given by its zero value), a JSON text, and what GoDec.tla says Unmarshal stores
// into a zero value of that type (want) and whether it reports an error ("" | "saved" | "hard").
type godecLine struct {
	Fam   string                 `json:"fam"`
	T     map[string]interface{} `json:"t"`
	Text  []int                  `json:"text"`
	Want  map[string]interface{} `json:"want"` // Unmarshal (the fork always decodes with UseNumber)
	Err   string                 `json:"err"`
	WantD map[string]interface{} `json:"wantd"` // Decoder.Decode without UseNumber
	ErrD  string                 `json:"errd"`
	ErrS  string                 `json:"errs"` // Decoder after DisallowUnknownFields (the value is wantd)
}

// goTypeOf builds the Go type a zero value of the model describes.
func goTypeOf(g map[string]interface{}) (reflect.Type, error) {
	switch g["g"] {
	case "tslice":
		et, err := goTypeOf(g["z"].(map[string]interface{}))
		if err != nil {
			return nil, err
		}
		return reflect.SliceOf(et), nil
	case "tmap":
		et, err := goTypeOf(g["z"].(map[string]interface{}))
		if err != nil {
			return nil, err
		}
		return reflect.MapOf(reflect.TypeOf(""), et), nil
	case "ptr":
		et, err := goTypeOf(g["v"].(map[string]interface{}))
		if err != nil {
			return nil, err
		}
		return reflect.PointerTo(et), nil
	case "struct":
		var fields []reflect.StructField
		for _, e := range g["f"].([]interface{}) {
			f := e.(map[string]interface{})
			ft, err := goTypeOf(f["v"].(map[string]interface{}))
			if err != nil {
				return nil, err
			}
			name := string(wireBytes(f["name"]))
			sf := reflect.StructField{Name: name, Type: ft, Anonymous: f["anon"].(bool)}
			if name[0] >= 'a' && name[0] <= 'z' {
				sf.PkgPath = "verifharness/generated"
			}
			if f["tagged"].(bool) {
				tag := string(wireBytes(f["tname"]))
				if f["dash"].(bool) {
					tag = "-"
				}
				if f["omitempty"].(bool) {
					tag += ",omitempty"
				}
				if f["str"].(bool) {
					tag += ",string"
				}
				sf.Tag = reflect.StructTag(`json:"` + tag + `"`)
			}
			fields = append(fields, sf)
		}
		return reflect.StructOf(fields), nil
	}
	v, err := buildGo(g)
	if err != nil {
		return nil, err
	}
	if g["g"] == "nil" {
		return ifaceType, nil
	}
	return v.Type(), nil
}

// sameGo compares what the codec stored (got) with the model value (want); "" when they agree.
func sameGo(want map[string]interface{}, got reflect.Value, at string) string {
	for got.Kind() == reflect.Interface {
		if got.IsNil() {
			if want["g"] == "nil" {
				return ""
			}
			return fmt.Sprintf("%s: nil interface, the specification says %v", at, want["g"])
		}
		got = got.Elem()
	}
	bad := func() string {
		return fmt.Sprintf("%s: the codec stored %s (%v), the specification says %v", at, got.Kind(), got, compactJSON(want))
	}
	switch want["g"] {
	case "nil":
		return bad() // a non-nil value where nil is expected (nil interfaces were handled above)
	case "bool":
		if got.Kind() != reflect.Bool || got.Bool() != want["b"].(bool) {
			return bad()
		}
	case "int":
		if got.Kind() != reflect.Int64 || got.Int() != int64(want["i"].(float64)) {
			return bad()
		}
	case "number":
		if got.Kind() != reflect.String || got.Type().Name() != "Number" || got.String() != string(wireBytes(want["lit"])) {
			return bad()
		}
	case "float":
		f, err := strconv.ParseFloat(string(wireBytes(want["lit"])), 64)
		if err != nil && !math.IsInf(f, 0) && f != 0 {
			return at + ": the specification's float literal does not parse: " + err.Error()
		}
		if got.Kind() != reflect.Float64 || got.Float() != f || math.Signbit(got.Float()) != math.Signbit(f) {
			return bad()
		}
	case "str":
		if got.Kind() != reflect.String || got.String() != string(wireBytes(want["bytes"])) {
			return bad()
		}
	case "bytes":
		if got.Kind() != reflect.Slice || got.Type().Elem().Kind() != reflect.Uint8 || got.IsNil() != want["nil"].(bool) ||
			string(got.Bytes()) != string(wireBytes(want["b"])) {
			return bad()
		}
	case "slice", "tslice":
		if got.Kind() != reflect.Slice || got.IsNil() != want["nil"].(bool) {
			return bad()
		}
		es := want["e"].([]interface{})
		if got.Len() != len(es) {
			return bad()
		}
		for i, e := range es {
			if d := sameGo(e.(map[string]interface{}), got.Index(i), fmt.Sprintf("%s[%d]", at, i)); d != "" {
				return d
			}
		}
	case "map", "tmap":
		if got.Kind() != reflect.Map || got.IsNil() != want["nil"].(bool) {
			return bad()
		}
		ms := want["m"].([]interface{})
		if got.Len() != len(ms) {
			return bad()
		}
		for _, e := range ms {
			kv := e.(map[string]interface{})
			k := string(wireBytes(kv["k"]))
			x := got.MapIndex(reflect.ValueOf(k))
			if !x.IsValid() {
				return fmt.Sprintf("%s: no entry %q", at, k)
			}
			if d := sameGo(kv["v"].(map[string]interface{}), x, fmt.Sprintf("%s[%q]", at, k)); d != "" {
				return d
			}
		}
	case "ptr":
		if got.Kind() != reflect.Pointer || got.IsNil() != want["nil"].(bool) {
			return bad()
		}
		if !got.IsNil() {
			return sameGo(want["v"].(map[string]interface{}), got.Elem(), "*"+at)
		}
	case "struct":
		fs := want["f"].([]interface{})
		if got.Kind() != reflect.Struct || got.NumField() != len(fs) {
			return bad()
		}
		for i, e := range fs {
			f := e.(map[string]interface{})
			if d := sameGo(f["v"].(map[string]interface{}), got.Field(i), at+"."+string(wireBytes(f["name"]))); d != "" {
				return d
			}
		}
	default:
		return fmt.Sprintf("%s: unknown model kind %v", at, want["g"])
	}
	return ""
}

func compactJSON(x interface{}) string {
	b, _ := stdjson.Marshal(x)
	if len(b) > 300 {
		b = append(b[:300], "..."...)
	}
	return string(b)
}

// describeGo prints a decoded value deterministically (maps sorted) for reports and for the comparison with encoding/json.
func describeGo(v reflect.Value) string {
	switch v.Kind() {
	case reflect.Interface:
		if v.IsNil() {
			return "nil"
		}
		return "i:" + describeGo(v.Elem())
	case reflect.Pointer:
		if v.IsNil() {
			return "nilptr"
		}
		return "&" + describeGo(v.Elem())
	case reflect.Map:
		if v.IsNil() {
			return "nilmap"
		}
		var ks []string
		for _, k := range v.MapKeys() {
			ks = append(ks, k.String())
		}
		sort.Strings(ks)
		s := "map{"
		for _, k := range ks {
			s += strconv.Quote(k) + ":" + describeGo(v.MapIndex(reflect.ValueOf(k))) + ","
		}
		return s + "}"
	case reflect.Slice:
		if v.IsNil() {
			return "nilslice"
		}
		if v.Type().Elem().Kind() == reflect.Uint8 {
			return fmt.Sprintf("bytes%v", v.Bytes())
		}
		s := "["
		for i := 0; i < v.Len(); i++ {
			s += describeGo(v.Index(i)) + ","
		}
		return s + "]"
	case reflect.Struct:
		s := "{"
		for i := 0; i < v.NumField(); i++ {
			s += v.Type().Field(i).Name + ":" + describeGo(v.Field(i)) + ","
		}
		return s + "}"
	case reflect.Float64:
		return "f" + strconv.FormatFloat(v.Float(), 'g', -1, 64)
	case reflect.String:
		return strconv.Quote(v.String())
	}
	return fmt.Sprint(v)
}

func (e *engine) checkGoDecLine(worker int, raw []byte) error {
	var ln godecLine
	if err := stdjson.Unmarshal(raw, &ln); err != nil {
		return fmt.Errorf("bad godec line: %v", err)
	}
	e.rep.Count("transitions", 1)
	e.rep.Label("GoDec_" + fmt.Sprint(ln.T["g"]) + "_" + map[string]string{"": "ok", "saved": "saved", "hard": "hard"}[ln.Err])
	text := toBytes(ln.Text)
	viol := func(kind, detail string, extra map[string]interface{}) *lib.Violation {
		c := map[string]interface{}{"fam": "godec", "text": string(text), "go_type_model": ln.T, "spec_value": ln.Want, "spec_err": ln.Err, "line": ln}
		for k, x := range extra {
			c[k] = x
		}
		return &lib.Violation{Property: e.prop, Kind: kind, Detail: detail,
			Sig: map[string]string{"fam": "godec", "kind": kind, "lab": "", "lastop": "", "api": fmt.Sprint(extra["api"])}, Case: c}
	}
	hang := func() *lib.Violation { return viol("hang", "", nil) }
	t, terr := goTypeOf(ln.T)
	if terr != nil {
		return fmt.Errorf("cannot build the Go type: %v", terr)
	}
	pan := e.wd.Guard(worker, hang, func() {
		for _, api := range []string{"Unmarshal", "Decoder.Decode", "Decoder.UseNumber.Decode", "Decoder.DisallowUnknownFields.Decode"} {
			p := reflect.New(t)
			var err error
			want, wantErr := ln.Want, ln.Err
			switch api {
			case "Unmarshal":
				err = codec.Unmarshal(text, p.Interface())
			case "Decoder.Decode":
				err = codec.NewDecoder(bytes.NewReader(text)).Decode(p.Interface())
				want, wantErr = ln.WantD, ln.ErrD
			case "Decoder.DisallowUnknownFields.Decode":
				dec := codec.NewDecoder(bytes.NewReader(text))
				dec.DisallowUnknownFields()
				err = dec.Decode(p.Interface())
				want, wantErr = ln.WantD, ln.ErrS
			default:
				dec := codec.NewDecoder(bytes.NewReader(text))
				dec.UseNumber()
				err = dec.Decode(p.Interface())
			}
			if (err != nil) != (wantErr != "") {
				e.rep.Report(viol("godec-error", fmt.Sprintf("%s into %v: error %q, the decoding rules (GoDec.tla) say %q", api, t, errString(err), wantErr),
					map[string]interface{}{"api": api, "type": t.String(), "got": describeGo(p.Elem())}))
				return
			}
			if d := sameGo(want, p.Elem(), "x"); d != "" {
				e.rep.Report(viol("godec-value", fmt.Sprintf("%s into %v stores a value other than the decoding rules (GoDec.tla) say: %s", api, t, d),
					map[string]interface{}{"api": api, "type": t.String(), "got": describeGo(p.Elem())}))
				return
			}
			if typeHasNumber(ln.T) {
				continue // the fork's Number is a type of its own: encoding/json sees a plain string type
			}
			// the standard library on the same type and text
			sp := reflect.New(t)
			sdec := stdjson.NewDecoder(bytes.NewReader(text))
			switch api {
			case "Decoder.Decode":
			case "Decoder.DisallowUnknownFields.Decode":
				sdec.DisallowUnknownFields()
			default:
				sdec.UseNumber()
			}
			serr := sdec.Decode(sp.Interface())
			if (serr != nil) != (err != nil) || describeGo(sp.Elem()) != describeGo(p.Elem()) {
				e.rep.Report(viol("std-diff", "Unmarshal into a typed value differs from encoding/json",
					map[string]interface{}{"api": api, "type": t.String(), "fork": describeGo(p.Elem()), "std": describeGo(sp.Elem()), "forkerr": errString(err), "stderr": errString(serr)}))
				return
			}
		}
	})
	e.rep.Count("executions", 4)
	if pan != "" {
		e.rep.Report(viol("panic", "the codec panicked while decoding into a typed value: "+firstLine(pan), map[string]interface{}{"api": "Unmarshal", "type": t.String()}))
	}
	e.rep.Nontrivial(string(raw))
	if ln.T["g"] == "struct" && ln.Err == "saved" {
		e.rep.Sample(map[string]interface{}{"go_type": t.String(), "text": string(text), "spec_err": ln.Err, "spec_value": compactJSON(ln.Want)})
	}
	return nil
}

// typeHasNumber: the type model mentions json.Number anywhere (element types included)
func typeHasNumber(g interface{}) bool {
	switch x := g.(type) {
	case map[string]interface{}:
		if x["g"] == "number" {
			return true
		}
		for _, v := range x {
			if typeHasNumber(v) {
				return true
			}
		}
	case []interface{}:
		for _, v := range x {
			if typeHasNumber(v) {
				return true
			}
		}
	}
	return false
}
