// Command replay is direction A of the conformance machinery: it reads the output of TLC
// (transitions printed by an always-true ACTION_CONSTRAINT, one TLA+ string literal per
// line, mixed with TLC's own messages), executes every transition against the real
// library built from /repo's working tree and compares the projected result with the
// state the specification expects.  It contains no semantics of patches, pointers or
// merges: expected values come from the spec, observed values from the independent reader.
package main

import (
	"bufio"
	"flag"
	"fmt"
	"os"
	"runtime"
	"strconv"
	"strings"
	"sync"
	"time"

	"verifharness/lib"
)

type engine struct {
	prop      string
	seed      int64
	respell   bool
	leadingWS bool
	rep       *lib.Reporter
	wd        *lib.Watchdog
	extra     map[string]string
	nworkers  int
}

func main() {
	prop := flag.String("prop", "", "property id the comparisons are made for")
	seed := flag.Int64("seed", 1, "VERIF_SEED")
	respell := flag.Bool("respell", false, "also run every case in a random re-spelling")
	leading := flag.Bool("leadingws", true, "re-spelled documents may start with white space")
	replays := flag.String("replays", "/verif/replays", "directory for replay files")
	findings := flag.String("findings", "", "known_findings.json")
	tlclog := flag.String("tlclog", "", "file receiving TLC's own output lines")
	hang := flag.Duration("hang", 600*time.Second, "watchdog limit per call: a call that has not returned after this long is reported as a hang (generous, so that a starved machine is never mistaken for one)")
	workers := flag.Int("workers", runtime.NumCPU(), "parallel workers")
	opt := flag.String("opt", "", "family-specific options k=v,k=v")
	journal := flag.String("journal", "", "directory: every worker writes the line it is about to execute to <dir>/w<i> (used to find the input of a fatal crash)")
	flag.Parse()

	rep, err := lib.NewReporter(*replays, *findings)
	if err != nil {
		fmt.Fprintln(os.Stderr, "replay:", err)
		os.Exit(2)
	}
	if *prop == "C04" {
		rep.OnlyKinds = map[string]bool{"panic": true, "hang": true}
	}
	e := &engine{prop: *prop, seed: *seed, respell: *respell, leadingWS: *leading, rep: rep, extra: map[string]string{}}
	for _, kv := range strings.Split(*opt, ",") {
		if i := strings.IndexByte(kv, '='); i > 0 {
			e.extra[kv[:i]] = kv[i+1:]
		}
	}
	e.wd = lib.NewWatchdog(*workers+8, *hang, rep) // 8 extra slots for checks that fan out (nesting limit)
	e.nworkers = *workers

	var logf *os.File
	if *tlclog != "" {
		logf, err = os.Create(*tlclog)
		if err != nil {
			fmt.Fprintln(os.Stderr, "replay:", err)
			os.Exit(2)
		}
		defer logf.Close()
	}

	// sync.Pool contents survive only until the second garbage collection: collecting regularly makes the library
	// work with FRESH pooled decoder / encoder / scanner states again and again, not only in the first milliseconds
	if e.extra["gcflush"] != "0" {
		go func() {
			for {
				time.Sleep(40 * time.Millisecond)
				runtime.GC()
				runtime.GC()
			}
		}()
	}
	type job struct{ raw []byte }
	jobs := make(chan job, 4096)
	var wg sync.WaitGroup
	var bad sync.Map
	for w := 0; w < *workers; w++ {
		wg.Add(1)
		go func(w int) {
			defer wg.Done()
			var jf *os.File
			if *journal != "" {
				jf, _ = os.Create(fmt.Sprintf("%s/w%d", *journal, w))
			}
			for j := range jobs {
				if jf != nil {
					jf.Truncate(0)
					jf.WriteAt(j.raw, 0)
				}
				if err := e.dispatch(w, j.raw); err != nil {
					bad.Store(err.Error(), true)
				}
			}
		}(w)
	}

	in := bufio.NewReaderSize(os.Stdin, 1<<20)
	for {
		line, err := in.ReadString('\n')
		if len(line) > 0 {
			s := strings.TrimRight(line, "\r\n")
			if strings.HasPrefix(s, `"{`) {
				u, uerr := strconv.Unquote(s)
				if uerr != nil {
					bad.Store("cannot unquote TLC line: "+uerr.Error(), true)
				} else {
					jobs <- job{raw: []byte(u)}
				}
			} else if strings.HasPrefix(s, "{") {
				jobs <- job{raw: []byte(s)}
			} else if logf != nil {
				logf.WriteString(s + "\n")
			}
		}
		if err != nil {
			break
		}
	}
	close(jobs)
	wg.Wait()
	rep.PrintSummary()
	broken := false
	bad.Range(func(k, _ interface{}) bool {
		fmt.Fprintln(os.Stderr, "replay: internal error:", k)
		broken = true
		return true
	})
	if broken {
		os.Exit(2)
	}
	if rep.NViol > 0 {
		os.Exit(1)
	}
}

func (e *engine) dispatch(worker int, raw []byte) error {
	// the family tag is always the first or an early member; a cheap scan is enough
	fam := famOf(raw)
	switch fam {
	case "patch":
		return e.checkPatchLine(worker, raw)
	case "merge":
		return e.checkMergeLine(worker, raw)
	case "diff":
		return e.checkDiffLine(worker, raw)
	case "equal":
		return e.checkEqualLine(worker, raw)
	case "word":
		return e.checkWordLine(worker, raw)
	case "decode":
		return e.checkDecodeLine(worker, raw)
	}
	if f, ok := v5Families[fam]; ok {
		return f(e, worker, raw)
	}
	return fmt.Errorf("unknown family %q", fam)
}

func famOf(raw []byte) string {
	s := string(raw)
	i := strings.Index(s, `"fam"`)
	if i < 0 {
		return ""
	}
	s = strings.TrimLeft(s[i+5:], " \t\n:")
	if !strings.HasPrefix(s, `"`) {
		return ""
	}
	s = s[1:]
	j := strings.IndexByte(s, '"')
	if j < 0 {
		return ""
	}
	return s[:j]
}
