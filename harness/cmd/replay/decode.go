package main

import (
	"encoding/json"
	"fmt"
	"math/rand"
	"reflect"
	"sort"

	"verifharness/jsonread"
	"verifharness/lib"
)

// ---------------------------------------------------------------------------
// decode family (C11)
// ---------------------------------------------------------------------------

type accessor struct {
	Kind    []int           `json:"kind"`
	Path    []int           `json:"path"`
	HasFrom bool            `json:"hasFrom"`
	From    []int           `json:"from"`
	HasVal  bool            `json:"hasVal"`
	Value   json.RawMessage `json:"value"`
}

type decodeLine struct {
	Fam    string          `json:"fam"`
	Patch  json.RawMessage `json:"patch"`
	Accept bool            `json:"accept"`
	Acc    []accessor      `json:"acc"`
	Texts  []struct {
		W      []int `json:"w"`
		Accept bool  `json:"accept"`
	} `json:"texts"`
}

// fromGo projects a Go dynamic value (as returned by ValueInterface) to an abstract value.
// Numbers arrive as the codec's Number (a string type) or as float64.
func fromGo(v interface{}) (*jsonread.Value, error) {
	if v == nil {
		return jsonread.Null(), nil
	}
	switch x := v.(type) {
	case bool:
		return jsonread.Bool(x), nil
	case string:
		return jsonread.Str(x), nil
	case float64:
		b, _ := json.Marshal(x)
		return jsonread.Num(string(b)), nil
	case []interface{}:
		out := jsonread.Arr()
		for _, e := range x {
			c, err := fromGo(e)
			if err != nil {
				return nil, err
			}
			out.E = append(out.E, c)
		}
		return out, nil
	case map[string]interface{}:
		keys := make([]string, 0, len(x))
		for k := range x {
			keys = append(keys, k)
		}
		sort.Strings(keys)
		out := jsonread.Obj()
		for _, k := range keys {
			c, err := fromGo(x[k])
			if err != nil {
				return nil, err
			}
			out.M = append(out.M, jsonread.M(k, c))
		}
		return out, nil
	}
	rv := reflect.ValueOf(v)
	if rv.Kind() == reflect.String && rv.Type().Name() == "Number" {
		return jsonread.Num(rv.String()), nil
	}
	return nil, fmt.Errorf("unexpected dynamic type %T", v)
}

var probeDocs = [][]byte{[]byte(`{"a":{"b":[1,2]},"c":1}`), []byte(`[1,{"a":2}]`), []byte(`{"a":null}`), []byte(`{}`), []byte(`null`), []byte(`[null]`)}

func (e *engine) checkDecodeLine(worker int, raw []byte) error {
	var ln decodeLine
	if err := json.Unmarshal(raw, &ln); err != nil {
		return fmt.Errorf("bad decode line: %v", err)
	}
	pv, err := jsonread.FromWire(ln.Patch)
	if err != nil {
		return err
	}
	e.rep.Count("transitions", 1)
	e.rep.Label(fmt.Sprintf("Decode_%v", ln.Accept))
	rnd := rand.New(rand.NewSource(hashSeed(raw, e.seed)))
	for si, text := range [][]byte{jsonread.Canonical.Render(pv), jsonread.Spelling{Rnd: rnd}.RenderDoc(pv)} {
		var p lib.Patch
		var derr error
		viol := func(kind, detail string, extra map[string]interface{}) *lib.Violation {
			c := map[string]interface{}{"fam": "decode", "patch_text": string(text), "spec_accept": ln.Accept, "err": errString(derr), "line": ln, "spelling": si}
			for k, v := range extra {
				c[k] = v
			}
			return &lib.Violation{Property: e.prop, Kind: kind, Detail: detail,
				Sig: map[string]string{"fam": "decode", "kind": kind, "lab": "", "lastop": ""}, Case: c}
		}
		hang := func() *lib.Violation { return viol("hang", "", nil) }
		pan := e.wd.Guard(worker, hang, func() { p, derr = lib.DecodePatch(text) })
		e.rep.Count("executions", 1)
		if pan != "" {
			e.rep.Report(viol("panic", "DecodePatch panicked: "+firstLine(pan), nil))
			continue
		}
		if lib.Dialect == "v4" {
			// the legacy DecodePatch validates nothing (outside C11): whatever it accepts must be applicable without a panic
			if derr == nil {
				e.probeApply(worker, p, viol, hang)
			}
			continue
		}
		if (derr == nil) != ln.Accept {
			if ln.Accept {
				e.rep.Report(viol("reject", "a well-formed RFC 6902 patch document was rejected: "+derr.Error(), nil))
			} else {
				e.rep.Report(viol("accept", "a document that is not a well-formed RFC 6902 patch was accepted", nil))
			}
			continue
		}
		if !ln.Accept {
			if p != nil {
				e.rep.Report(viol("patch-on-error", "DecodePatch returned an error together with a non-nil Patch", nil))
			}
			continue
		}
		if len(p) != len(ln.Acc) {
			e.rep.Report(viol("length", fmt.Sprintf("decoded patch has %d operations, the document %d", len(p), len(ln.Acc)), nil))
			continue
		}
		bad := false
		for i, want := range ln.Acc {
			op := p[i]
			var kind, path, from string
			var perr, ferr, verr error
			var val interface{}
			pan := e.wd.Guard(worker, hang, func() {
				kind = op.Kind()
				path, perr = op.Path()
				from, ferr = op.From()
				val, verr = op.ValueInterface()
			})
			if pan != "" {
				e.rep.Report(viol("panic", "an Operation accessor panicked: "+firstLine(pan), nil))
				bad = true
				break
			}
			obs := map[string]interface{}{"index": i, "kind": kind, "path": path, "from": from, "value": fmt.Sprint(val)}
			if kind != cpString(want.Kind) {
				e.rep.Report(viol("accessor", "Kind() does not return the op member", obs))
				bad = true
				break
			}
			if perr != nil || path != cpString(want.Path) {
				e.rep.Report(viol("accessor", "Path() does not return the path member", obs))
				bad = true
				break
			}
			if want.HasFrom && (ferr != nil || from != cpString(want.From)) {
				e.rep.Report(viol("accessor", "From() does not return the from member", obs))
				bad = true
				break
			}
			if want.HasVal {
				wv, err := jsonread.FromWire(want.Value)
				if err != nil {
					return err
				}
				var gv *jsonread.Value
				if verr == nil {
					gv, err = fromGo(val)
				}
				if verr != nil || err != nil || gv.CanonKey() != wv.CanonKey() {
					obs["verr"], obs["perr"] = errString(verr), errString(err)
					e.rep.Report(viol("accessor", "ValueInterface() does not return the value member (numbers by literal)", obs))
					bad = true
					break
				}
			} else if verr == nil {
				e.rep.Report(viol("accessor", "ValueInterface() reports a value although the operation has no value member", obs))
				bad = true
				break
			}
		}
		if bad {
			continue
		}
		// an accepted patch can be applied without panicking (this is why the boundary matters)
		e.probeApply(worker, p, viol, hang)
	}
	// byte-level neighbours of the text (trailing data, a second value, a truncation, white space)
	if lib.Dialect == "v5" {
		for _, tm := range ln.Texts {
			text := make([]byte, len(tm.W))
			for i, c := range tm.W {
				text[i] = byte(c)
			}
			var p lib.Patch
			var derr error
			mk := func(kind, detail string) *lib.Violation {
				return &lib.Violation{Property: e.prop, Kind: kind, Detail: detail,
					Sig:  map[string]string{"fam": "decode", "kind": kind, "lab": "", "lastop": ""},
					Case: map[string]interface{}{"fam": "decode", "patch_text": string(text), "spec_accept": tm.Accept, "err": errString(derr), "line": ln}}
			}
			pan := e.wd.Guard(worker, func() *lib.Violation { return mk("hang", "") }, func() { p, derr = lib.DecodePatch(text) })
			e.rep.Count("executions", 1)
			e.rep.Label(fmt.Sprintf("DecodeText_%v", tm.Accept))
			if pan != "" {
				e.rep.Report(mk("panic", "DecodePatch panicked: "+firstLine(pan)))
			} else if (derr == nil) != tm.Accept {
				if tm.Accept {
					e.rep.Report(mk("reject", "a well-formed RFC 6902 patch document was rejected: "+derr.Error()))
				} else {
					e.rep.Report(mk("accept", "a text that is not a well-formed RFC 6902 patch document (trailing data / truncation) was accepted"))
				}
			} else if derr != nil && p != nil {
				e.rep.Report(mk("patch-on-error", "DecodePatch returned an error together with a non-nil Patch"))
			}
		}
	}
	e.rep.Nontrivial(string(ln.Patch))
	if !ln.Accept || len(ln.Acc) == 2 {
		e.rep.Sample(map[string]interface{}{"patch": string(jsonread.Canonical.Render(pv)), "spec_accept": ln.Accept})
	}
	return nil
}

// probeApply applies a decoded patch to the probe documents under recover().
func (e *engine) probeApply(worker int, p lib.Patch, viol func(string, string, map[string]interface{}) *lib.Violation, hang func() *lib.Violation) {
	for _, d := range probeDocs {
		for _, o := range []lib.Opts{{Neg: true, Esc: true}, {Ensure: true, Allow: true}} {
			if !lib.Supported(o) {
				continue
			}
			pan := e.wd.Guard(worker, hang, func() { lib.ApplyDecoded(p, d, o, "") })
			e.rep.Count("executions", 1)
			if pan != "" {
				e.rep.Report(viol("panic", "Apply of a patch that DecodePatch accepted panicked: "+firstLine(pan), map[string]interface{}{"doc": string(d), "opts": o, "panic": pan}))
			}
		}
	}
}
