//go:build !v4

package main

// families that exist for the v5 module only (they need the staged codec or v5's validation)
var v5Families = map[string]func(*engine, int, []byte) error{
	"decode":  (*engine).checkDecodeLine,
	"word":    (*engine).checkWordLine,
	"enc":     (*engine).checkEncLine,
	"cli":     (*engine).checkCliLine,
	"history": (*engine).checkHistoryLine,
	"goenc":   (*engine).checkGoEncLine,
	"godec":   (*engine).checkGoDecLine,
}
