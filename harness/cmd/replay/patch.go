package main

import (
	"encoding/json"
	"fmt"
	"math/rand"
	"strings"

	"verifharness/jsonread"
	"verifharness/lib"
)

// One printed transition of MCPatch (DESIGN.md Appendix A.2).
type patchLine struct {
	Fam     string            `json:"fam"`
	Seed    json.RawMessage   `json:"seed"`
	Opts    lib.Opts          `json:"opts"`
	Ops     []json.RawMessage `json:"ops"`
	Lab     string            `json:"lab"`
	Status  string            `json:"status"`
	Cls     string            `json:"cls"`
	Doc     json.RawMessage   `json:"doc"`
	Lo      int               `json:"lo"`
	Hi      int               `json:"hi"`
	Skipped []int             `json:"skipped"`
}

type wireOp struct {
	Op    string          `json:"op"`
	Path  []int           `json:"path"`
	From  []int           `json:"from"`
	Value json.RawMessage `json:"value"`
	NoVal bool            `json:"nov"`
}

// renderOp writes one operation as a JSON object.
func renderOp(sp jsonread.Spelling, raw json.RawMessage) (string, *wireOp, error) {
	var op wireOp
	if err := json.Unmarshal(raw, &op); err != nil {
		return "", nil, err
	}
	type kv struct{ k, v string }
	var ms []kv
	str := func(cp []int) string {
		var b strings.Builder
		sp.WriteString(&b, jsonread.CpFromWire(cp))
		return b.String()
	}
	ms = append(ms, kv{`"op"`, `"` + op.Op + `"`})
	switch op.Op {
	case "move", "copy":
		ms = append(ms, kv{`"from"`, str(op.From)})
	}
	ms = append(ms, kv{`"path"`, str(op.Path)})
	switch op.Op {
	case "add", "replace", "test":
		if !op.NoVal {
			v, err := jsonread.FromWire(op.Value)
			if err != nil {
				return "", nil, err
			}
			ms = append(ms, kv{`"value"`, string(sp.Render(v))})
		}
	}
	if sp.Rnd != nil {
		sp.Rnd.Shuffle(len(ms), func(i, j int) { ms[i], ms[j] = ms[j], ms[i] })
	}
	var b strings.Builder
	b.WriteByte('{')
	for i, m := range ms {
		if i > 0 {
			b.WriteByte(',')
		}
		b.WriteString(m.k)
		b.WriteByte(':')
		b.WriteString(m.v)
	}
	b.WriteByte('}')
	return b.String(), &op, nil
}

func renderPatch(sp jsonread.Spelling, ops []json.RawMessage) ([]byte, []*wireOp, error) {
	var b strings.Builder
	var parsed []*wireOp
	b.WriteByte('[')
	for i, o := range ops {
		if i > 0 {
			b.WriteByte(',')
		}
		s, op, err := renderOp(sp, o)
		if err != nil {
			return nil, nil, err
		}
		parsed = append(parsed, op)
		b.WriteString(s)
	}
	b.WriteByte(']')
	return []byte(b.String()), parsed, nil
}

func cpString(cp []int) string { return string(jsonread.CpFromWire(cp)) }

// sigOf computes what known-finding matchers may look at: only facts about the failing case.
func patchSig(ops []*wireOp, o lib.Opts, kind string, lab string) map[string]string {
	sig := map[string]string{"fam": "patch", "kind": kind, "lab": lab}
	var kinds, paths, froms []string
	for _, op := range ops {
		kinds = append(kinds, op.Op)
		paths = append(paths, cpString(op.Path))
		if op.Op == "move" || op.Op == "copy" {
			froms = append(froms, cpString(op.From))
		}
	}
	sig["ops"] = strings.Join(kinds, ",")
	sig["paths"] = strings.Join(paths, ",")
	sig["froms"] = strings.Join(froms, ",")
	sig["lastop"] = kinds[len(kinds)-1]
	sig["ensure"] = fmt.Sprint(o.Ensure)
	sig["allow"] = fmt.Sprint(o.Allow)
	sig["esc"] = fmt.Sprint(o.Esc)
	return sig
}

type patchCase struct {
	line     *patchLine
	docText  []byte
	patch    []byte
	ops      []*wireOp
	spelling string
}

func (c *patchCase) caseMap(extra map[string]interface{}) map[string]interface{} {
	m := map[string]interface{}{
		"fam": "patch", "doc_text": string(c.docText), "patch_text": string(c.patch),
		"opts": c.line.Opts, "spelling": c.spelling,
		"spec": map[string]interface{}{"lab": c.line.Lab, "status": c.line.Status, "cls": c.line.Cls,
			"doc": c.line.Doc, "lo": c.line.Lo, "hi": c.line.Hi, "skipped": c.line.Skipped},
		"line": c.line,
	}
	for k, v := range extra {
		m[k] = v
	}
	return m
}

// checkPatchLine executes one printed transition against the real library and compares.
func (e *engine) checkPatchLine(worker int, raw []byte) error {
	var ln patchLine
	if err := json.Unmarshal(raw, &ln); err != nil {
		return fmt.Errorf("bad patch line: %v", err)
	}
	seed, err := jsonread.FromWire(ln.Seed)
	if err != nil {
		return err
	}
	want, err := jsonread.FromWire(ln.Doc)
	if err != nil {
		return err
	}
	e.rep.Count("transitions", 1)
	e.rep.Label(ln.Lab)

	// two spellings: canonical, and (value-level properties only) a random re-spelling
	spellings := []string{"canonical"}
	if e.respell {
		spellings = append(spellings, "respelled")
	}
	for _, spn := range spellings {
		sp := jsonread.Canonical
		if spn == "respelled" {
			h := int64(0)
			for _, b := range raw {
				h = h*131 + int64(b)
			}
			sp = jsonread.Spelling{Rnd: rand.New(rand.NewSource(h ^ e.seed))}
		}
		pt, ops, err := renderPatch(sp, ln.Ops)
		if err != nil {
			return err
		}
		c := &patchCase{line: &ln, docText: sp.RenderDoc(seed), patch: pt, ops: ops, spelling: spn}
		if spn == "respelled" && c.docText[0] != '{' && c.docText[0] != '[' && !e.leadingWS {
			// leading white space before the root is C16's business (known defect F-11 before its fix)
			c.docText = sp.Render(seed)
		}
		e.checkPatchCase(worker, c, want)
	}
	// distinct non-trivial: the operation sequence changes the document or fails
	if ln.Status != "run" || string(ln.Doc) != string(ln.Seed) {
		e.rep.Nontrivial(string(ln.Seed) + fmt.Sprint(ln.Opts) + fmt.Sprint(ln.Ops))
	}
	if len(ln.Ops) >= 2 {
		e.rep.Sample(map[string]interface{}{"doc": string(jsonread.Canonical.Render(seed)), "patch": string(mustPatch(ln.Ops)),
			"opts": ln.Opts, "spec_label": ln.Lab, "spec_status": ln.Status, "spec_class": ln.Cls})
	}
	return nil
}

func mustPatch(ops []json.RawMessage) []byte {
	b, _, _ := renderPatch(jsonread.Canonical, ops)
	return b
}

func (e *engine) checkPatchCase(worker int, c *patchCase, want *jsonread.Value) {
	ln := c.line
	prop := e.prop
	var out []byte
	var aerr, derr error
	viol := func(kind, detail string, extra map[string]interface{}) *lib.Violation {
		return &lib.Violation{Property: prop, Kind: kind, Detail: detail,
			Sig: patchSig(c.ops, ln.Opts, kind, ln.Lab), Case: c.caseMap(extra)}
	}
	pan := e.wd.Guard(worker, func() *lib.Violation { return viol("hang", "", nil) }, func() {
		out, aerr, derr = lib.Apply(c.docText, c.patch, ln.Opts, "")
	})
	e.rep.Count("executions", 1)
	if pan != "" {
		e.rep.Report(viol("panic", "Apply panicked: "+firstLine(pan), map[string]interface{}{"panic": pan}))
		return
	}
	if derr != nil {
		e.rep.Report(viol("decode-reject", "DecodePatch rejected a well-formed RFC 6902 patch: "+derr.Error(), nil))
		return
	}
	ec := lib.Classify(aerr)
	obs := map[string]interface{}{"out": string(out), "out_nil": out == nil, "err": errString(aerr), "errc": ec}

	switch ln.Status {
	case "run":
		if aerr != nil {
			e.rep.Report(viol("unexpected-error", "the reference applies the patch, Apply returned an error: "+aerr.Error(), obs))
			return
		}
		got, perr := jsonread.Parse(out)
		if perr != nil {
			e.rep.Report(viol("malformed-output", "output is not well-formed JSON: "+perr.Error(), obs))
			return
		}
		switch prop {
		case "C05":
			if got.OrdKey() != want.OrdKey() {
				if got.CanonKey() == want.CanonKey() {
					e.rep.Report(viol("order", "member order of the output differs from the reference", obs))
				} else {
					e.rep.Report(viol("value", "output is not the reference document (ordered, literal-exact)", obs))
				}
			}
		default:
			if got.CanonKey() != want.CanonKey() {
				e.rep.Report(viol("value", "output is not structurally equal to the reference document", obs))
			}
		}
	case "err":
		if aerr == nil {
			e.rep.Report(viol("unexpected-success", "the reference rejects the patch ("+ln.Lab+"), Apply succeeded", obs))
			return
		}
		if prop == "C08" {
			e.checkErrorClass(c, ec, out, obs, viol)
		}
	}
}

// checkErrorClass is C08 for one failing behaviour.
func (e *engine) checkErrorClass(c *patchCase, ec lib.ErrClass, out []byte, obs map[string]interface{},
	viol func(string, string, map[string]interface{}) *lib.Violation) {
	ln := c.line
	if out != nil {
		e.rep.Report(viol("output-on-failure", "a failing Apply returned a non-nil document", obs))
	}
	switch ln.Cls {
	case "TestFailed":
		if !ec.Test {
			e.rep.Report(viol("class", "first failing operation is a test that compared unequal, but errors.Is(err, ErrTestFailed) is false", obs))
		}
		if ec.Copy {
			e.rep.Report(viol("class", "failed test reported as *AccumulatedCopySizeError", obs))
		}
	case "CopyLimit":
		if !ec.Copy {
			e.rep.Report(viol("class", "copy pushed the total over the limit, but the error is not *AccumulatedCopySizeError", obs))
		}
		if ec.Test {
			e.rep.Report(viol("class", "copy over limit reported as ErrTestFailed", obs))
		}
	case "Missing":
		if !ec.Missing {
			e.rep.Report(viol("class", "absent member / unreachable parent ("+ln.Lab+"), but errors.Is(err, ErrMissing) is false", obs))
		}
		if ec.Test || ec.Copy {
			e.rep.Report(viol("class", "missing location reported as ErrTestFailed / copy-size error", obs))
		}
	case "Unspecified":
		if ec.Test || ec.Copy {
			e.rep.Report(viol("class", "failure "+ln.Lab+" reported as ErrTestFailed / copy-size error", obs))
		}
	}
}

func errString(err error) string {
	if err == nil {
		return ""
	}
	return err.Error()
}

func firstLine(s string) string {
	if i := strings.IndexByte(s, '\n'); i >= 0 {
		return s[:i]
	}
	return s
}
