package main

import (
	"bytes"
	"encoding/json"
	"fmt"
	"math/rand"
	"strings"
	"sync"

	"verifharness/jsonread"
	"verifharness/lib"
)

// One printed transition of MCPatch (DESIGN.md Appendix A.2).
type patchLine struct {
	Fam     string            `json:"fam"`
	Seed    json.RawMessage   `json:"seed"`
	Opts    lib.Opts          `json:"opts"`
	Ops     []json.RawMessage `json:"ops"`
	Lab     string            `json:"lab"`
	Status  string            `json:"status"`
	Cls     string            `json:"cls"`
	Doc     json.RawMessage   `json:"doc"`
	Lo      int               `json:"lo"`
	Hi      int               `json:"hi"`
	Skipped []int             `json:"skipped"`
}

type wireOp struct {
	Op    string          `json:"op"`
	Path  []int           `json:"path"`
	From  []int           `json:"from"`
	Value json.RawMessage `json:"value"`
	NoVal bool            `json:"nov"`
}

// renderOp writes one operation as a JSON object.
func renderOp(sp jsonread.Spelling, raw json.RawMessage) (string, *wireOp, error) {
	var op wireOp
	if err := json.Unmarshal(raw, &op); err != nil {
		return "", nil, err
	}
	type kv struct{ k, v string }
	var ms []kv
	str := func(cp []int) string {
		var b strings.Builder
		sp.WriteString(&b, jsonread.CpFromWire(cp))
		return b.String()
	}
	ms = append(ms, kv{`"op"`, `"` + op.Op + `"`})
	switch op.Op {
	case "move", "copy":
		ms = append(ms, kv{`"from"`, str(op.From)})
	}
	ms = append(ms, kv{`"path"`, str(op.Path)})
	switch op.Op {
	case "add", "replace", "test":
		if !op.NoVal {
			v, err := jsonread.FromWire(op.Value)
			if err != nil {
				return "", nil, err
			}
			ms = append(ms, kv{`"value"`, string(sp.Render(v))})
		}
	}
	if sp.Rnd != nil {
		sp.Rnd.Shuffle(len(ms), func(i, j int) { ms[i], ms[j] = ms[j], ms[i] })
	}
	var b strings.Builder
	b.WriteByte('{')
	for i, m := range ms {
		if i > 0 {
			b.WriteByte(',')
		}
		b.WriteString(m.k)
		b.WriteByte(':')
		b.WriteString(m.v)
	}
	b.WriteByte('}')
	return b.String(), &op, nil
}

func renderPatch(sp jsonread.Spelling, ops []json.RawMessage) ([]byte, []*wireOp, error) {
	var parsed []*wireOp
	var texts []string
	for _, o := range ops {
		s, op, err := renderOp(sp, o)
		if err != nil {
			return nil, nil, err
		}
		parsed = append(parsed, op)
		texts = append(texts, s)
	}
	return joinPatch(texts), parsed, nil
}

func joinPatch(texts []string) []byte {
	return []byte("[" + strings.Join(texts, ",") + "]")
}

func cpString(cp []int) string { return string(jsonread.CpFromWire(cp)) }

// patchSig computes what known-finding matchers may look at: only facts about the failing case.
func patchSig(ops []*wireOp, o lib.Opts, kind string, lab string) map[string]string {
	sig := map[string]string{"fam": "patch", "kind": kind, "lab": lab}
	var kinds, paths, froms []string
	for _, op := range ops {
		kinds = append(kinds, op.Op)
		paths = append(paths, cpString(op.Path))
		if op.Op == "move" || op.Op == "copy" {
			froms = append(froms, cpString(op.From))
		}
	}
	sig["ops"] = strings.Join(kinds, ",")
	sig["paths"] = strings.Join(paths, ",")
	sig["froms"] = strings.Join(froms, ",")
	sig["lastop"] = ""
	if len(kinds) > 0 {
		sig["lastop"] = kinds[len(kinds)-1]
	}
	sig["ensure"] = fmt.Sprint(o.Ensure)
	sig["allow"] = fmt.Sprint(o.Allow)
	sig["esc"] = fmt.Sprint(o.Esc)
	return sig
}

type patchCase struct {
	line     *patchLine
	docText  []byte
	patch    []byte
	opTexts  []string
	ops      []*wireOp
	spelling string
}

func (c *patchCase) caseMap(extra map[string]interface{}) map[string]interface{} {
	m := map[string]interface{}{
		"fam": "patch", "doc_text": string(c.docText), "patch_text": string(c.patch),
		"opts": c.line.Opts, "spelling": c.spelling,
		"spec": map[string]interface{}{"lab": c.line.Lab, "status": c.line.Status, "cls": c.line.Cls,
			"doc": c.line.Doc, "lo": c.line.Lo, "hi": c.line.Hi, "skipped": c.line.Skipped},
		"line": c.line,
	}
	for k, v := range extra {
		m[k] = v
	}
	return m
}

var seenSeeds sync.Map

// checkPatchLine executes one printed transition against the real library and compares.
func (e *engine) checkPatchLine(worker int, raw []byte) error {
	var ln patchLine
	if err := json.Unmarshal(raw, &ln); err != nil {
		return fmt.Errorf("bad patch line: %v", err)
	}
	seed, err := jsonread.FromWire(ln.Seed)
	if err != nil {
		return err
	}
	want, err := jsonread.FromWire(ln.Doc)
	if err != nil {
		return err
	}
	e.rep.Count("transitions", 1)
	if lib.Dialect == "v4" {
		var ops []*wireOp
		for _, o := range ln.Ops {
			var op wireOp
			if err := json.Unmarshal(o, &op); err != nil {
				return err
			}
			ops = append(ops, &op)
		}
		if (e.prop != "C04" && !legacyDomain(&ln, ops)) || !lib.Supported(ln.Opts) {
			e.rep.Label("LegacyOutsideDomain")
			return nil
		}
	}
	e.rep.Label(ln.Lab)

	// two spellings: canonical, and (value-level properties only) a random re-spelling
	spellings := []string{"canonical"}
	if e.respell {
		spellings = append(spellings, "respelled")
	}
	for _, spn := range spellings {
		sp := jsonread.Canonical
		if spn == "respelled" {
			h := int64(0)
			for _, b := range raw {
				h = h*131 + int64(b)
			}
			sp = jsonread.Spelling{Rnd: rand.New(rand.NewSource(h ^ e.seed)), WsOnly: e.extra["wsonly"] == "1"}
		}
		c := &patchCase{line: &ln, spelling: spn}
		for _, o := range ln.Ops {
			s, op, err := renderOp(sp, o)
			if err != nil {
				return err
			}
			c.ops = append(c.ops, op)
			c.opTexts = append(c.opTexts, s)
		}
		c.patch = joinPatch(c.opTexts)
		c.docText = sp.RenderDoc(seed)
		if spn == "respelled" && !e.leadingWS {
			c.docText = sp.Render(seed)
		}
		e.checkPatchCase(worker, c, seed, want)
	}
	// the empty patch, once per (seed, options): an identity on value, order and literals
	if len(ln.Ops) == 1 && lib.Supported(ln.Opts) {
		key := string(ln.Seed) + fmt.Sprint(ln.Opts)
		if _, loaded := seenSeeds.LoadOrStore(key, true); !loaded {
			el := ln
			el.Ops, el.Lab, el.Status, el.Cls, el.Doc, el.Lo, el.Hi, el.Skipped = nil, "EmptyPatch", "run", "", ln.Seed, 0, 0, nil
			c := &patchCase{line: &el, spelling: "canonical", patch: []byte("[]"), docText: jsonread.Canonical.Render(seed)}
			e.rep.Label("EmptyPatch")
			e.checkPatchCase(worker, c, seed, seed)
		}
	}
	// distinct non-trivial: the operation sequence changes the document or fails
	if ln.Status != "run" || string(ln.Doc) != string(ln.Seed) {
		e.rep.Nontrivial(string(ln.Seed) + fmt.Sprint(ln.Opts) + fmt.Sprint(ln.Ops))
	}
	if len(ln.Ops) >= 2 || ln.Status != "run" {
		e.rep.Sample(map[string]interface{}{"doc": string(jsonread.Canonical.Render(seed)), "patch": string(mustPatch(ln.Ops)),
			"opts": ln.Opts, "spec_label": ln.Lab, "spec_status": ln.Status, "spec_class": ln.Cls})
	}
	return nil
}

// survivorsKeepOrder: in every object found at the same place before and after, the member names present in both appear in
// the same relative order, and names that are new come after them; "" when that holds.
func survivorsKeepOrder(before, after *jsonread.Value, at string) string {
	if before.T != after.T {
		return ""
	}
	switch before.T {
	case "arr":
		if len(before.E) == len(after.E) {
			for i := range before.E {
				if d := survivorsKeepOrder(before.E[i], after.E[i], fmt.Sprintf("%s/%d", at, i)); d != "" {
					return d
				}
			}
		}
	case "obj":
		pos := map[string]int{}
		for i, m := range before.M {
			pos[string(m.K)] = i
		}
		last, seenNew := -1, false
		for _, m := range after.M {
			i, old := pos[string(m.K)]
			if !old {
				seenNew = true
				continue
			}
			if i < last {
				return fmt.Sprintf("in the object at %q member %q now comes after a member it used to precede", at, string(m.K))
			}
			if seenNew {
				return fmt.Sprintf("in the object at %q the surviving member %q comes after a newly created one", at, string(m.K))
			}
			last = i
			if d := survivorsKeepOrder(before.M[i].V, m.V, at+"/"+string(m.K)); d != "" {
				return d
			}
		}
	}
	return ""
}

func mustPatch(ops []json.RawMessage) []byte {
	b, _, _ := renderPatch(jsonread.Canonical, ops)
	return b
}

type applyResult struct {
	out        []byte
	aerr, derr error
	pan        string
}

func (e *engine) runApply(worker int, doc, patch []byte, o lib.Opts, viaDefaults bool, what func() *lib.Violation) applyResult {
	var r applyResult
	r.pan = e.wd.Guard(worker, what, func() {
		if viaDefaults {
			r.out, r.aerr, r.derr = lib.ApplyDefaults(doc, patch, o.Limit, o.Neg)
			return
		}
		r.out, r.aerr, r.derr = lib.Apply(doc, patch, o, "")
	})
	e.rep.Count("executions", 1)
	return r
}

// ---------------------------------------------------------------------------
// The legacy root package (C18, and the legacy clauses of C04/C12) claims less than v5:
// legacyDomain decides, from the shape of the inputs and the specification's label only,
// whether a behaviour is inside what C18 states.
// ---------------------------------------------------------------------------

var legacyErrLabels = map[string]bool{
	"TestFail": true, "TestFailAbsent": true,
	"RemoveAbsentMember": true, "RemoveNoParent": true, "RemoveBadIndex": true,
	"MoveFromAbsentMember": true, "MoveFromNoParent": true, "MoveFromBadIndex": true,
	"AddBadIndex": true, "ReplaceBadIndex": true, "TestBadIndex": true, "CopyFromBadIndex": true,
	"CopyOverLimit": true,
}

func hasAwkwardString(v *jsonread.Value) bool {
	switch v.T {
	case "str":
		for _, c := range v.Cp {
			if c == '<' || c == '>' || c == '&' || c == '"' || c == '\\' || c < 0x20 || c == 0x2028 || c == 0x2029 {
				return true
			}
		}
	case "arr":
		for _, e := range v.E {
			if hasAwkwardString(e) {
				return true
			}
		}
	case "obj":
		for _, m := range v.M {
			if hasAwkwardString(jsonread.StrCp(m.K)) || hasAwkwardString(m.V) {
				return true
			}
		}
	}
	return false
}

func legacyDomain(ln *patchLine, ops []*wireOp) bool {
	if !lib.Supported(ln.Opts) {
		return false
	}
	for _, op := range ops {
		if (op.Op == "add" && len(op.Path) == 0) || (op.Op == "copy" && len(op.From) == 0) {
			return false // root-replacing add and copy from "": not offered by the legacy package
		}
		if op.Op == "test" && !op.NoVal {
			if v, err := jsonread.FromWire(op.Value); err != nil || hasAwkwardString(v) {
				return false // the legacy package compares string spellings
			}
		}
	}
	if ln.Status == "err" && !legacyErrLabels[ln.Lab] {
		return false
	}
	return true
}

func (e *engine) checkPatchCase(worker int, c *patchCase, seed, want *jsonread.Value) {
	ln := c.line
	prop := e.prop
	viol := func(kind, detail string, extra map[string]interface{}) *lib.Violation {
		return &lib.Violation{Property: prop, Kind: kind, Detail: detail,
			Sig: patchSig(c.ops, ln.Opts, kind, ln.Lab), Case: c.caseMap(extra)}
	}
	hang := func() *lib.Violation { return viol("hang", "", nil) }
	r := e.runApply(worker, c.docText, c.patch, ln.Opts, false, hang)
	if r.pan != "" {
		e.rep.Report(viol("panic", "Apply panicked: "+firstLine(r.pan), map[string]interface{}{"panic": r.pan}))
		return
	}
	if r.derr != nil {
		e.rep.Report(viol("decode-reject", "DecodePatch rejected a well-formed RFC 6902 patch: "+r.derr.Error(), nil))
		return
	}
	ec := lib.Classify(r.aerr)
	obs := map[string]interface{}{"out": string(r.out), "out_nil": r.out == nil, "err": errString(r.aerr), "errc": ec}
	// the document that was returned must stay what it was: a result that shares memory with a pooled buffer or
	// with an input changes under the caller's hands when the library is used again (by this or another goroutine)
	returned := append([]byte{}, r.out...)
	defer func() {
		if !bytes.Equal(returned, r.out) {
			e.rep.Report(viol("result-changed-later", "the bytes returned by Apply changed after the call returned (the result aliases memory the library reuses)",
				map[string]interface{}{"returned": string(returned), "now": string(r.out)}))
		}
	}()

	// outcome() judges one real result against an expected (status, document)
	outcome := func(r applyResult, status string, want *jsonread.Value, what string, obs map[string]interface{}) bool {
		switch status {
		case "run":
			if r.aerr != nil {
				e.rep.Report(viol("unexpected-error", what+"the reference applies the patch, Apply returned an error: "+r.aerr.Error(), obs))
				return false
			}
			got, perr := jsonread.Parse(r.out)
			if perr != nil {
				e.rep.Report(viol("malformed-output", what+"output is not well-formed JSON: "+perr.Error(), obs))
				return false
			}
			if prop == "C05" {
				if got.OrdKey() != want.OrdKey() {
					if got.CanonKey() == want.CanonKey() {
						e.rep.Report(viol("order", what+"member order of the output differs from the reference", obs))
					} else {
						e.rep.Report(viol("value", what+"output is not the reference document (ordered, literal-exact)", obs))
					}
					return false
				}
			} else if got.CanonKey() != want.CanonKey() {
				e.rep.Report(viol("value", what+"output is not structurally equal to the reference document", obs))
				return false
			}
		case "err":
			if r.aerr == nil {
				e.rep.Report(viol("unexpected-success", what+"the reference rejects the patch ("+ln.Lab+"), Apply succeeded", obs))
				return false
			}
			if r.out != nil {
				e.rep.Report(viol("output-on-failure", what+"a failing Apply returned a non-nil document", obs))
				return false
			}
		}
		return true
	}
	if !outcome(r, ln.Status, want, "", obs) {
		return
	}
	// C05 where the reference leaves the RESULT open (an ensure-add through a null member: outside C14's domain) but the
	// order clause still applies: whatever the add does, the members that survive it keep their relative order
	if prop == "C05" && ln.Status == "dc" && ln.Lab == "EnsureThroughNull" && len(c.ops) == 1 && r.aerr == nil {
		e.rep.Label("SurvivorOrder_dc")
		if got, perr := jsonread.Parse(r.out); perr != nil {
			e.rep.Report(viol("malformed-output", "output is not well-formed JSON: "+perr.Error(), obs))
		} else if d := survivorsKeepOrder(seed, got, ""); d != "" {
			e.rep.Report(viol("order", "members that survive the operation changed their relative order: "+d, obs))
		}
	}

	if ln.Status == "dc" {
		return // outside the stated domain: executed (panics, hangs, well-formed output, C05's order clause), nothing else is compared
	}
	switch prop {
	case "C08":
		if ln.Status == "err" {
			e.checkErrorClass(c, ec, "", obs, viol)
			e.checkTails(worker, c, viol, hang)
		}
	case "C12":
		e.checkCopyLimit(worker, c, r, ec, want, obs, viol, hang, outcome)
	case "C13":
		e.checkSkip(worker, c, r, seed, obs, viol, hang)
	case "C15":
		e.checkBytes(worker, c, r, want, obs, viol, hang)
	}
}

// checkErrorClass is C08 for one failing behaviour.
func (e *engine) checkErrorClass(c *patchCase, ec lib.ErrClass, what string, obs map[string]interface{},
	viol func(string, string, map[string]interface{}) *lib.Violation) {
	ln := c.line
	switch ln.Cls {
	case "TestFailed":
		if !ec.Test {
			e.rep.Report(viol("class", what+"first failing operation is a test that compared unequal, but errors.Is(err, ErrTestFailed) is false", obs))
		}
		if ec.Copy {
			e.rep.Report(viol("class", what+"failed test reported as *AccumulatedCopySizeError", obs))
		}
	case "CopyLimit":
		if !ec.Copy {
			e.rep.Report(viol("class", what+"copy pushed the total over the limit, but the error is not *AccumulatedCopySizeError", obs))
		}
		if ec.Test {
			e.rep.Report(viol("class", what+"copy over limit reported as ErrTestFailed", obs))
		}
	case "Missing":
		if !ec.Missing {
			e.rep.Report(viol("class", what+"absent member / unreachable parent ("+ln.Lab+"), but errors.Is(err, ErrMissing) is false", obs))
		}
		if ec.Test || ec.Copy {
			e.rep.Report(viol("class", what+"missing location reported as ErrTestFailed / copy-size error", obs))
		}
	case "Unspecified":
		if ec.Test || ec.Copy {
			e.rep.Report(viol("class", what+"failure "+ln.Lab+" reported as ErrTestFailed / copy-size error", obs))
		}
	}
}

// checkTails: operations after the first failing one have no effect on the outcome (C08).
// The specification's status is absorbing (FirstFailureWins), so the expected outcome of
// ops ++ tail is the outcome of ops, whatever the tail is.
func (e *engine) checkTails(worker int, c *patchCase, viol func(string, string, map[string]interface{}) *lib.Violation, hang func() *lib.Violation) {
	tails := [][]string{
		{`{"op":"test","path":"","value":"no document equals this string"}`},                         // would fail differently
		{`{"op":"add","path":"","value":{"tail":1}}`, `{"op":"test","path":"/tail","value":1}`},      // would succeed
		{`{"op":"copy","from":"","path":"/tail"}`, `{"op":"remove","path":"/definitely/not/there"}`}, // copy + missing
	}
	for ti, tail := range tails {
		patch := joinPatch(append(append([]string{}, c.opTexts...), tail...))
		r := e.runApply(worker, c.docText, patch, c.line.Opts, false, hang)
		obs := map[string]interface{}{"tail": tail, "patch_with_tail": string(patch), "out": string(r.out), "out_nil": r.out == nil, "err": errString(r.aerr)}
		if r.pan != "" {
			e.rep.Report(viol("panic", "Apply with a tail after the failing operation panicked: "+firstLine(r.pan), obs))
			return
		}
		if r.derr != nil {
			e.rep.Report(viol("decode-reject", "DecodePatch rejected the patch with tail: "+r.derr.Error(), obs))
			return
		}
		if r.aerr == nil || r.out != nil {
			e.rep.Report(viol("tail-effect", fmt.Sprintf("operations after the first failing one changed the outcome (tail %d): no error or a document returned", ti), obs))
			return
		}
		ec := lib.Classify(r.aerr)
		obs["errc"] = ec
		e.checkErrorClass(c, ec, fmt.Sprintf("with tail %d: ", ti), obs, viol)
	}
}

// checkCopyLimit is C12.  The specification's sizes (lo/hi: a copied null may weigh 0 or 4)
// are those of the encoder's spelling (spec/JsonEnc.tla); limits are placed around them.
func (e *engine) checkCopyLimit(worker int, c *patchCase, r applyResult, ec lib.ErrClass, want *jsonread.Value, obs map[string]interface{},
	viol func(string, string, map[string]interface{}) *lib.Violation, hang func() *lib.Violation,
	outcome func(applyResult, string, *jsonread.Value, string, map[string]interface{}) bool) {
	ln := c.line
	// "exactly when": the error type must be the copy-size error iff the class is CopyLimit
	if ln.Status == "err" {
		if (ln.Cls == "CopyLimit") != ec.Copy {
			e.rep.Report(viol("class", fmt.Sprintf("spec class %s but errors.As(*AccumulatedCopySizeError) = %v", ln.Cls, ec.Copy), obs))
		}
		return
	}
	ncopy := 0
	for _, op := range c.ops {
		if op.Op == "copy" {
			ncopy++
		}
	}
	if ncopy == 0 || ln.Opts.Limit != 0 || c.ops[len(c.ops)-1].Op != "copy" {
		return
	}
	// the behaviour succeeded with the check disabled; lo..hi is the total after the last copy
	type probe struct {
		limit  int
		status string
	}
	var probes []probe
	if ln.Lo-1 >= 1 {
		probes = append(probes, probe{ln.Lo - 1, "err"})
	}
	if ln.Hi >= 1 {
		probes = append(probes, probe{ln.Hi, "run"})
	}
	probes = append(probes, probe{ln.Hi + 1, "run"}, probe{ln.Hi + 1000, "run"})
	// the total is per Apply call: ONE options value, first a call whose copies fit but which then fails in a test,
	// then the patch itself - which must still succeed under limit = total
	if ln.Hi >= 1 {
		o := ln.Opts
		o.Limit = ln.Hi
		shared := o.Native()
		failing := joinPatch(append(append([]string{}, c.opTexts...), `{"op":"test","path":"","value":"no document equals this string"}`))
		var r1, r2 applyResult
		pan := e.wd.Guard(worker, hang, func() {
			r1.out, r1.aerr, r1.derr = lib.ApplyNative(c.docText, failing, shared)
			r2.out, r2.aerr, r2.derr = lib.ApplyNative(c.docText, c.patch, shared)
		})
		e.rep.Count("executions", 2)
		e.rep.Label("CopyProbe_reuse")
		obs2 := map[string]interface{}{"limit": ln.Hi, "first_call_patch": string(failing), "first_err": errString(r1.aerr),
			"second_out": string(r2.out), "second_err": errString(r2.aerr)}
		if pan != "" {
			e.rep.Report(viol("panic", "Apply panicked: "+firstLine(pan), obs2))
		} else if r1.aerr == nil {
			e.rep.Report(viol("unexpected-success", "a patch ending in a failing test succeeded", obs2))
		} else if lib.Classify(r2.aerr).Copy {
			e.rep.Report(viol("limit-carried-over", "the copy total of an earlier (failed) Apply call was carried into the next call that uses the same options value", obs2))
		} else {
			outcome(r2, "run", want, "reusing the options value after a failed call: ", obs2)
		}
	}
	for _, pb := range probes {
		o := ln.Opts
		o.Limit = pb.limit
		vias := []bool{false}
		if o.Esc && !o.Allow && !o.Ensure && lib.Dialect == "v5" {
			vias = append(vias, true) // the package-level default, through Patch.Apply
		}
		for _, via := range vias {
			r2 := e.runApply(worker, c.docText, c.patch, o, via, hang)
			ec2 := lib.Classify(r2.aerr)
			obs2 := map[string]interface{}{"limit": pb.limit, "via_package_default": via, "spec_total_lo": ln.Lo, "spec_total_hi": ln.Hi,
				"out": string(r2.out), "out_nil": r2.out == nil, "err": errString(r2.aerr), "errc": ec2}
			what := fmt.Sprintf("limit %d (total %d..%d): ", pb.limit, ln.Lo, ln.Hi)
			e.rep.Label("CopyProbe_" + pb.status)
			if r2.pan != "" {
				e.rep.Report(viol("panic", what+"Apply panicked: "+firstLine(r2.pan), obs2))
				continue
			}
			if pb.status == "run" {
				if ec2.Copy {
					e.rep.Report(viol("limit-early", what+"the total is within the limit but Apply failed with *AccumulatedCopySizeError", obs2))
					continue
				}
				outcome(r2, "run", want, what, obs2)
			} else {
				if r2.aerr == nil {
					e.rep.Report(viol("limit-late", what+"the total exceeds the limit but Apply succeeded", obs2))
				} else if !ec2.Copy {
					e.rep.Report(viol("class", what+"the total exceeds the limit but the error is not *AccumulatedCopySizeError", obs2))
				} else if r2.out != nil {
					e.rep.Report(viol("output-on-failure", what+"a patch stopped by the limit returned a document", obs2))
				}
				// the limit stops the patch AT that copy: a later operation that would fail for another reason is never reached
				if !via {
					tailed := joinPatch(append(append([]string{}, c.opTexts...), `{"op":"test","path":"","value":"no document equals this string"}`))
					r3 := e.runApply(worker, c.docText, tailed, o, false, hang)
					e.rep.Label("CopyProbe_stops")
					obs3 := map[string]interface{}{"limit": pb.limit, "patch_with_tail": string(tailed), "err": errString(r3.aerr), "errc": lib.Classify(r3.aerr)}
					if r3.pan != "" {
						e.rep.Report(viol("panic", what+"Apply panicked: "+firstLine(r3.pan), obs3))
					} else if r3.aerr == nil || !lib.Classify(r3.aerr).Copy {
						e.rep.Report(viol("limit-not-stopping", what+"the copy that crosses the limit did not stop the patch: with a failing test appended the error is not *AccumulatedCopySizeError", obs3))
					}
				}
			}
		}
	}
}

// checkSkip is C13: (option on, P) against (option off, P minus the removes the specification skipped).
func (e *engine) checkSkip(worker int, c *patchCase, r applyResult, seed *jsonread.Value, obs map[string]interface{},
	viol func(string, string, map[string]interface{}) *lib.Violation, hang func() *lib.Violation) {
	ln := c.line
	if !ln.Opts.Allow {
		return
	}
	skip := map[int]bool{}
	for _, i := range ln.Skipped {
		skip[i] = true
	}
	var kept []string
	for i, t := range c.opTexts {
		if !skip[i+1] {
			kept = append(kept, t)
		}
	}
	o := ln.Opts
	o.Allow = false
	patch := joinPatch(kept)
	r2 := e.runApply(worker, c.docText, patch, o, false, hang)
	obs2 := map[string]interface{}{"on": obs, "off_patch": string(patch), "off_out": string(r2.out), "off_err": errString(r2.aerr), "skipped": ln.Skipped}
	e.rep.Label(fmt.Sprintf("SkipPairs_%d", len(ln.Skipped)))
	if r2.pan != "" {
		e.rep.Report(viol("panic", "Apply (option off, skipped removes deleted) panicked: "+firstLine(r2.pan), obs2))
		return
	}
	if r2.derr != nil {
		e.rep.Report(viol("decode-reject", "DecodePatch rejected the filtered patch: "+r2.derr.Error(), obs2))
		return
	}
	if (r.aerr == nil) != (r2.aerr == nil) {
		e.rep.Report(viol("skip-outcome", "option on with P and option off with P minus the skipped removes differ in success/failure", obs2))
		return
	}
	if r.aerr == nil {
		a, err1 := jsonread.Parse(r.out)
		b, err2 := jsonread.Parse(r2.out)
		if err1 != nil || err2 != nil || a.CanonKey() != b.CanonKey() {
			e.rep.Report(viol("skip-value", "option on with P and option off with P minus the skipped removes give different documents", obs2))
		}
	}
}

func errString(err error) string {
	if err == nil {
		return ""
	}
	return err.Error()
}

func firstLine(s string) string {
	if i := strings.IndexByte(s, '\n'); i >= 0 {
		return s[:i]
	}
	return s
}
