package main

import (
	"bytes"
	"encoding/json"
	"fmt"
	"math/rand"

	"verifharness/jsonread"
	"verifharness/lib"
)

// One printed transition of MCMerge in mode "merge".
type mergeLine struct {
	Fam      string            `json:"fam"`
	Doc      json.RawMessage   `json:"doc"`
	Patches  []json.RawMessage `json:"patches"`
	Result   json.RawMessage   `json:"result"`
	Compat   bool              `json:"compat"`
	Composed json.RawMessage   `json:"composed"`
}

// One printed transition of MCMerge in mode "diff".
type diffLine struct {
	Fam       string          `json:"fam"`
	A         json.RawMessage `json:"a"`
	B         json.RawMessage `json:"b"`
	Kind      string          `json:"kind"`
	Patch     json.RawMessage `json:"patch"`
	Roundtrip bool            `json:"roundtrip"`
}

func hashSeed(raw []byte, seed int64) int64 {
	h := int64(0)
	for _, b := range raw {
		h = h*131 + int64(b)
	}
	return h ^ seed
}

func has(v *jsonread.Value, k []rune) *jsonread.Value {
	for _, m := range v.M {
		if string(m.K) == string(k) {
			return m.V
		}
	}
	return nil
}

// mergeOrderOK is the predicate MergeOrderOK of spec/Merge7396.tla on an observed result:
// in every object that was merged, surviving members keep the target's order and precede new ones.
func mergeOrderOK(t, p, r *jsonread.Value) bool {
	if t.T != "obj" || p.T != "obj" || r.T != "obj" {
		return true
	}
	var surv []string
	seenNew := false
	for _, m := range r.M {
		if has(t, m.K) != nil {
			if seenNew {
				return false
			}
			surv = append(surv, string(m.K))
		} else {
			seenNew = true
		}
	}
	i := 0
	for _, m := range t.M {
		if has(r, m.K) != nil {
			if i >= len(surv) || surv[i] != string(m.K) {
				return false
			}
			i++
		}
	}
	for _, m := range r.M {
		tv, pv := has(t, m.K), has(p, m.K)
		if tv != nil && pv != nil && !mergeOrderOK(tv, pv, m.V) {
			return false
		}
	}
	return true
}

func (e *engine) mergeSig(kind string, extra map[string]string) map[string]string {
	sig := map[string]string{"fam": "merge", "kind": kind, "lab": "", "lastop": ""}
	for k, v := range extra {
		sig[k] = v
	}
	return sig
}

// guarded call of a two-argument entry point
func (e *engine) call2(worker int, f func(a, b []byte) ([]byte, error), a, b []byte, what func() *lib.Violation) (out []byte, err error, pan string) {
	pan = e.wd.Guard(worker, what, func() { out, err = f(a, b) })
	e.rep.Count("executions", 1)
	return
}

func (e *engine) checkMergeLine(worker int, raw []byte) error {
	var ln mergeLine
	if err := json.Unmarshal(raw, &ln); err != nil {
		return fmt.Errorf("bad merge line: %v", err)
	}
	doc, err := jsonread.FromWire(ln.Doc)
	if err != nil {
		return err
	}
	want, err := jsonread.FromWire(ln.Result)
	if err != nil {
		return err
	}
	var patches []*jsonread.Value
	for _, p := range ln.Patches {
		v, err := jsonread.FromWire(p)
		if err != nil {
			return err
		}
		patches = append(patches, v)
	}
	e.rep.Count("transitions", 1)
	last := patches[len(patches)-1]
	if lib.Dialect == "v4" && e.prop != "C04" {
		// C19: object or array patches only (the legacy package rejects literal and null patches)
		for _, p := range patches {
			if p.T != "obj" && p.T != "arr" {
				e.rep.Label("LegacyOutsideDomain")
				return nil
			}
		}
	}
	e.rep.Label("Merge_" + last.T)
	if len(patches) == 2 && ln.Compat {
		e.rep.Label("ComposeCompatible")
	}
	spellings := []string{"canonical"}
	if e.respell {
		spellings = append(spellings, "respelled")
	}
	for _, spn := range spellings {
		sp := jsonread.Canonical
		if spn == "respelled" {
			sp = jsonread.Spelling{Rnd: rand.New(rand.NewSource(hashSeed(raw, e.seed)))}
		}
		docText := sp.RenderDoc(doc)
		var ptexts [][]byte
		for _, p := range patches {
			ptexts = append(ptexts, sp.RenderDoc(p))
		}
		cm := map[string]interface{}{"fam": "merge", "doc_text": string(docText), "patch_texts": texts(ptexts), "spelling": spn,
			"spec_result": string(jsonread.Canonical.Render(want)), "line": ln}
		viol := func(kind, detail string, extra map[string]interface{}) *lib.Violation {
			c := map[string]interface{}{}
			for k, v := range cm {
				c[k] = v
			}
			for k, v := range extra {
				c[k] = v
			}
			return &lib.Violation{Property: e.prop, Kind: kind, Detail: detail,
				Sig: e.mergeSig(kind, map[string]string{"patch_type": last.T, "npatches": fmt.Sprint(len(patches))}), Case: c}
		}
		hang := func() *lib.Violation { return viol("hang", "", nil) }

		// apply the patches one after the other with the real MergePatch
		cur := docText
		var curVal = doc
		ok := true
		for i, pt := range ptexts {
			out, merr, pan := e.call2(worker, lib.MergePatch, cur, pt, hang)
			obs := map[string]interface{}{"step": i + 1, "in": string(cur), "patch": string(pt), "out": string(out), "err": errString(merr)}
			if pan != "" {
				e.rep.Report(viol("panic", "MergePatch panicked: "+firstLine(pan), obs))
				ok = false
				break
			}
			if merr != nil {
				e.rep.Report(viol("unexpected-error", "MergePatch rejected well-formed inputs: "+merr.Error(), obs))
				ok = false
				break
			}
			got, perr := jsonread.Parse(out)
			if perr != nil {
				e.rep.Report(viol("malformed-output", "MergePatch output is not well-formed JSON: "+perr.Error(), obs))
				ok = false
				break
			}
			pv := patches[i]
			if pv.T != "obj" && pv.T != "arr" && !bytes.Equal(out, pt) {
				// a literal patch comes back verbatim
				e.rep.Report(viol("not-verbatim", "a non-object, non-array patch must replace the document verbatim", obs))
				ok = false
				break
			}
			if e.prop == "C05" && !mergeOrderOK(curVal, pv, got) {
				e.rep.Report(viol("order", "surviving members are not in document order ahead of the new ones", obs))
				ok = false
				break
			}
			cur, curVal = out, got
		}
		if !ok {
			continue
		}
		if curVal.CanonKey() != want.CanonKey() {
			e.rep.Report(viol("value", "MergePatch result is not structurally equal to RFC 7396's result",
				map[string]interface{}{"out": string(cur)}))
			continue
		}
		if last.T == "arr" && curVal.OrdKey() != last.OrdKey() {
			e.rep.Report(viol("array-edited", "an array patch must become the result as it is", map[string]interface{}{"out": string(cur)}))
			continue
		}
		// C07: the combined patch
		if (e.prop == "C07" || e.prop == "C19") && len(patches) == 2 && ln.Compat {
			composed, err := jsonread.FromWire(ln.Composed)
			if err != nil {
				continue
			}
			pm, cerr, pan := e.call2(worker, lib.MergeMergePatches, ptexts[0], ptexts[1], hang)
			obs := map[string]interface{}{"p1": string(ptexts[0]), "p2": string(ptexts[1]), "combined": string(pm), "err": errString(cerr),
				"spec_combined": string(jsonread.Canonical.Render(composed))}
			if pan != "" {
				e.rep.Report(viol("panic", "MergeMergePatches panicked: "+firstLine(pan), obs))
				continue
			}
			if cerr != nil {
				e.rep.Report(viol("unexpected-error", "MergeMergePatches rejected two merge patches: "+cerr.Error(), obs))
				continue
			}
			pmv, perr := jsonread.Parse(pm)
			if perr != nil {
				e.rep.Report(viol("malformed-output", "MergeMergePatches output is not well-formed JSON: "+perr.Error(), obs))
				continue
			}
			// the law, on the real MergePatch
			out, merr, pan := e.call2(worker, lib.MergePatch, docText, pm, hang)
			obs["doc"], obs["applied"], obs["applied_err"] = string(docText), string(out), errString(merr)
			if pan != "" {
				e.rep.Report(viol("panic", "MergePatch with the combined patch panicked: "+firstLine(pan), obs))
				continue
			}
			var gotv *jsonread.Value
			if merr == nil {
				gotv, perr = jsonread.Parse(out)
			}
			if merr != nil || perr != nil || gotv.CanonKey() != want.CanonKey() {
				e.rep.Report(viol("compose-law", "applying MergeMergePatches(P1,P2) differs from applying P1 and then P2", obs))
				continue
			}
			// the combined patch itself (unique up to member order for compatible pairs, DESIGN.md C07)
			if pmv.CanonKey() != composed.CanonKey() {
				e.rep.Report(viol("compose-value", "the combined patch is not the composition (deletions kept, later value overrides, non-object P2 wins)", obs))
			}
		}
	}
	if want.CanonKey() != doc.CanonKey() {
		e.rep.Nontrivial(string(ln.Doc) + fmt.Sprint(ln.Patches))
	}
	if len(patches) == 2 || last.T == "obj" {
		e.rep.Sample(map[string]interface{}{"doc": string(jsonread.Canonical.Render(doc)), "patches": texts(renderAll(patches)),
			"spec_result": string(jsonread.Canonical.Render(want))})
	}
	return nil
}

func renderAll(vs []*jsonread.Value) [][]byte {
	var out [][]byte
	for _, v := range vs {
		out = append(out, jsonread.Canonical.Render(v))
	}
	return out
}

func texts(bs [][]byte) []string {
	var out []string
	for _, b := range bs {
		out = append(out, string(b))
	}
	return out
}

func (e *engine) checkDiffLine(worker int, raw []byte) error {
	var ln diffLine
	if err := json.Unmarshal(raw, &ln); err != nil {
		return fmt.Errorf("bad diff line: %v", err)
	}
	a, err := jsonread.FromWire(ln.A)
	if err != nil {
		return err
	}
	b, err := jsonread.FromWire(ln.B)
	if err != nil {
		return err
	}
	e.rep.Count("transitions", 1)
	if lib.Dialect == "v4" && e.prop != "C04" && (ln.Kind != "obj" || !ln.Roundtrip || !floatSpelled(a) || !floatSpelled(b)) {
		// C19: objects whose numbers are spelled the way Go prints a float64, B without null members
		e.rep.Label("LegacyOutsideDomain")
		return nil
	}
	e.rep.Label("Create_" + ln.Kind)
	if ln.Kind == "dc" {
		return nil
	}
	spellings := []string{"canonical"}
	if e.respell {
		spellings = append(spellings, "respelled")
	}
	for _, spn := range spellings {
		sp := jsonread.Canonical
		if spn == "respelled" {
			sp = jsonread.Spelling{Rnd: rand.New(rand.NewSource(hashSeed(raw, e.seed)))}
		}
		at, bt := sp.RenderDoc(a), sp.RenderDoc(b)
		viol := func(kind, detail string, extra map[string]interface{}) *lib.Violation {
			c := map[string]interface{}{"fam": "diff", "a_text": string(at), "b_text": string(bt), "spelling": spn, "spec_kind": ln.Kind, "line": ln}
			for k, v := range extra {
				c[k] = v
			}
			return &lib.Violation{Property: e.prop, Kind: kind, Detail: detail, Sig: e.mergeSig(kind, map[string]string{"fam": "diff", "spec_kind": ln.Kind}), Case: c}
		}
		hang := func() *lib.Violation { return viol("hang", "", nil) }
		out, cerr, pan := e.call2(worker, lib.CreateMergePatch, at, bt, hang)
		obs := map[string]interface{}{"out": string(out), "err": errString(cerr)}
		if pan != "" {
			e.rep.Report(viol("panic", "CreateMergePatch panicked: "+firstLine(pan), obs))
			continue
		}
		if ln.Kind == "reject" {
			if cerr == nil {
				e.rep.Report(viol("unexpected-success", "inputs that are not both objects / both arrays of objects of equal length must be rejected", obs))
			}
			continue
		}
		if cerr != nil {
			e.rep.Report(viol("unexpected-error", "CreateMergePatch rejected two "+ln.Kind+" documents: "+cerr.Error(), obs))
			continue
		}
		want, err := jsonread.FromWire(ln.Patch)
		if err != nil {
			return err
		}
		got, perr := jsonread.Parse(out)
		if perr != nil {
			e.rep.Report(viol("malformed-output", "CreateMergePatch output is not well-formed JSON: "+perr.Error(), obs))
			continue
		}
		obs["spec_patch"] = string(jsonread.Canonical.Render(want))
		if got.CanonKey() != want.CanonKey() {
			e.rep.Report(viol("value", "the created patch is not the minimal merge patch (members that differ, deletions as null, literals of B)", obs))
			continue
		}
		if !ln.Roundtrip {
			continue
		}
		// applying the created patch with the library's own MergePatch reproduces B
		pairs := [][3]*jsonread.Value{{a, b, got}}
		if ln.Kind == "arr" {
			pairs = nil
			for i := range a.E {
				pairs = append(pairs, [3]*jsonread.Value{a.E[i], b.E[i], got.E[i]})
			}
		}
		for _, pr := range pairs {
			dt, pt := sp.RenderDoc(pr[0]), jsonread.Canonical.Render(pr[2])
			if ln.Kind == "obj" {
				pt = out
			}
			res, merr, pan := e.call2(worker, lib.MergePatch, dt, pt, hang)
			obs2 := map[string]interface{}{"created": string(out), "doc": string(dt), "patch": string(pt), "applied": string(res), "err": errString(merr)}
			if pan != "" {
				e.rep.Report(viol("panic", "MergePatch(A, created patch) panicked: "+firstLine(pan), obs2))
				break
			}
			var rv *jsonread.Value
			if merr == nil {
				rv, perr = jsonread.Parse(res)
			}
			if merr != nil || perr != nil || rv.CanonKey() != pr[1].CanonKey() {
				e.rep.Report(viol("roundtrip", "MergePatch(A, CreateMergePatch(A, B)) is not B", obs2))
				break
			}
		}
		e.rep.Label("RoundTrip")
	}
	if ln.Kind != "reject" {
		e.rep.Nontrivial(string(ln.A) + "|" + string(ln.B))
	}
	e.rep.Sample(map[string]interface{}{"a": string(jsonread.Canonical.Render(a)), "b": string(jsonread.Canonical.Render(b)), "spec_kind": ln.Kind})
	return nil
}

// floatSpelled: every number literal is a plain integer below 2^53 (spelled as Go prints that float64).
func floatSpelled(v *jsonread.Value) bool {
	switch v.T {
	case "num":
		lit := v.Lit
		if len(lit) > 0 && lit[0] == '-' {
			lit = lit[1:]
		}
		if len(lit) == 0 || len(lit) > 15 || (len(lit) > 1 && lit[0] == '0') {
			return false
		}
		for _, c := range lit {
			if c < '0' || c > '9' {
				return false
			}
		}
		return v.Lit != "-0"
	case "arr":
		for _, e := range v.E {
			if !floatSpelled(e) {
				return false
			}
		}
	case "obj":
		for _, m := range v.M {
			if !floatSpelled(m.V) {
				return false
			}
		}
	}
	return true
}
