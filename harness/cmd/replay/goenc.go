//go:build !v4

package main

import (
	"bytes"
	stdjson "encoding/json"
	"fmt"
	"reflect"
	"strconv"
	"strings"

	codec "github.com/evanphx/json-patch/v5/verifcodec"

	"verifharness/lib"
)

// One state of MCGoEnc: a model of a Go value with the bytes GoEnc.tla says Marshal must write.
type goencLine struct {
	Fam    string                 `json:"fam"`
	G      map[string]interface{} `json:"g"`
	Esc    []int                  `json:"esc"`
	Raw    []int                  `json:"raw"`
	Fails  bool                   `json:"fails"`  // GoEnc!GoFails: Marshal returns an error
	Custom bool                   `json:"custom"` // the value holds a type with marshalling methods
	DC     bool                   `json:"dc"`     // GoEnc!GoUnspecified: only "returns without panicking" is checked
}

// types with marshalling methods (GoEnc.tla: marsh, textm, redir, trust)
type vMarsh struct {
	Text string
	Fail bool
}

func (m vMarsh) MarshalJSON() ([]byte, error) {
	if m.Fail {
		return nil, fmt.Errorf("vMarsh fails")
	}
	return []byte(m.Text), nil
}

type vText struct{ Text string }

func (t vText) MarshalText() ([]byte, error) { return []byte(t.Text), nil }

type vRedir struct{ V interface{} }

func (r vRedir) RedirectMarshalJSON() (interface{}, error) { return r.V, nil }

type vTrust struct{ B string }

func (t vTrust) TrustMarshalJSON(buf *bytes.Buffer) error {
	buf.WriteString(t.B)
	return nil
}

var ifaceType = reflect.TypeOf((*interface{})(nil)).Elem()

func wireBytes(x interface{}) []byte {
	a, _ := x.([]interface{})
	b := make([]byte, len(a))
	for i, c := range a {
		b[i] = byte(c.(float64))
	}
	return b
}

// buildGo constructs the Go value a model describes (struct types with reflect.StructOf).
func buildGo(g map[string]interface{}) (reflect.Value, error) {
	switch g["g"] {
	case "nil":
		return reflect.Zero(ifaceType), nil
	case "bool":
		return reflect.ValueOf(g["b"].(bool)), nil
	case "int":
		return reflect.ValueOf(int64(g["i"].(float64))), nil
	case "float":
		f, err := strconv.ParseFloat(string(wireBytes(g["lit"])), 64)
		return reflect.ValueOf(f), err
	case "str":
		return reflect.ValueOf(string(wireBytes(g["bytes"]))), nil
	case "iface": // a non-nil interface{} holding a value: as a struct field its static type is interface{}
		v, err := buildGo(g["v"].(map[string]interface{}))
		if err != nil {
			return v, err
		}
		out := reflect.New(ifaceType).Elem()
		out.Set(v)
		return out, nil
	case "number":
		return reflect.ValueOf(codec.Number(string(wireBytes(g["lit"])))), nil
	case "marsh":
		return reflect.ValueOf(vMarsh{Text: string(wireBytes(g["text"])), Fail: g["fail"].(bool)}), nil
	case "textm":
		return reflect.ValueOf(vText{Text: string(wireBytes(g["text"]))}), nil
	case "trust":
		return reflect.ValueOf(vTrust{B: string(wireBytes(g["b"]))}), nil
	case "redir":
		v, err := buildGo(g["v"].(map[string]interface{}))
		if err != nil {
			return v, err
		}
		return reflect.ValueOf(vRedir{V: iface(v)}), nil
	case "tslice", "tmap":
		z, err := buildGo(g["z"].(map[string]interface{}))
		if err != nil {
			return z, err
		}
		et := z.Type()
		if g["z"].(map[string]interface{})["g"] == "nil" {
			et = ifaceType
		}
		if g["g"] == "tslice" {
			st := reflect.SliceOf(et)
			if g["nil"].(bool) {
				return reflect.Zero(st), nil
			}
			sl := reflect.MakeSlice(st, 0, 4)
			for _, e := range g["e"].([]interface{}) {
				v, err := buildGo(e.(map[string]interface{}))
				if err != nil {
					return v, err
				}
				sl = reflect.Append(sl, v)
			}
			return sl, nil
		}
		mt := reflect.MapOf(reflect.TypeOf(""), et)
		if g["nil"].(bool) {
			return reflect.Zero(mt), nil
		}
		m := reflect.MakeMap(mt)
		for _, e := range g["m"].([]interface{}) {
			kv := e.(map[string]interface{})
			v, err := buildGo(kv["v"].(map[string]interface{}))
			if err != nil {
				return v, err
			}
			m.SetMapIndex(reflect.ValueOf(string(wireBytes(kv["k"]))), v)
		}
		return m, nil
	case "slice":
		if g["nil"].(bool) {
			return reflect.ValueOf([]interface{}(nil)), nil
		}
		s := []interface{}{}
		for _, e := range g["e"].([]interface{}) {
			v, err := buildGo(e.(map[string]interface{}))
			if err != nil {
				return v, err
			}
			s = append(s, iface(v))
		}
		return reflect.ValueOf(s), nil
	case "bytes":
		if g["nil"].(bool) {
			return reflect.ValueOf([]byte(nil)), nil
		}
		return reflect.ValueOf(append([]byte{}, wireBytes(g["b"])...)), nil
	case "map":
		if g["nil"].(bool) {
			return reflect.ValueOf(map[string]interface{}(nil)), nil
		}
		m := map[string]interface{}{}
		for _, e := range g["m"].([]interface{}) {
			kv := e.(map[string]interface{})
			v, err := buildGo(kv["v"].(map[string]interface{}))
			if err != nil {
				return v, err
			}
			m[string(wireBytes(kv["k"]))] = iface(v)
		}
		return reflect.ValueOf(m), nil
	case "imap":
		m := map[int]interface{}{}
		for _, e := range g["m"].([]interface{}) {
			kv := e.(map[string]interface{})
			v, err := buildGo(kv["v"].(map[string]interface{}))
			if err != nil {
				return v, err
			}
			m[int(kv["k"].(float64))] = iface(v)
		}
		return reflect.ValueOf(m), nil
	case "ptr":
		v, err := buildGo(g["v"].(map[string]interface{}))
		if err != nil {
			return v, err
		}
		if g["nil"].(bool) {
			return reflect.Zero(reflect.PointerTo(v.Type())), nil
		}
		p := reflect.New(v.Type())
		p.Elem().Set(v)
		return p, nil
	case "struct":
		var fields []reflect.StructField
		var vals []reflect.Value
		for _, e := range g["f"].([]interface{}) {
			f := e.(map[string]interface{})
			v, err := buildGo(f["v"].(map[string]interface{}))
			if err != nil {
				return v, err
			}
			name := string(wireBytes(f["name"]))
			sf := reflect.StructField{Name: name, Type: v.Type(), Anonymous: f["anon"].(bool)}
			if name[0] >= 'a' && name[0] <= 'z' {
				sf.PkgPath = "verifharness/generated"
			}
			if f["tagged"].(bool) {
				tag := string(wireBytes(f["tname"]))
				if f["dash"].(bool) {
					tag = "-"
				}
				if f["omitempty"].(bool) {
					tag += ",omitempty"
				}
				if f["str"].(bool) {
					tag += ",string"
				}
				sf.Tag = reflect.StructTag(`json:"` + tag + `"`)
			}
			fields = append(fields, sf)
			vals = append(vals, v)
		}
		t := reflect.StructOf(fields)
		s := reflect.New(t).Elem()
		for i, v := range vals {
			if s.Field(i).CanSet() {
				s.Field(i).Set(v)
			}
		}
		return s, nil
	}
	return reflect.Value{}, fmt.Errorf("unknown Go value kind %v", g["g"])
}

// hasForkOnly: the model holds a RedirectMarshaler or TrustMarshaler (which encoding/json would encode as a struct)
func hasForkOnly(g interface{}) bool {
	switch x := g.(type) {
	case map[string]interface{}:
		if x["g"] == "redir" || x["g"] == "trust" || x["g"] == "number" { // (and the fork's Number is a type of its own)
			return true
		}
		for k, v := range x {
			if k == "z" {
				continue
			}
			if hasForkOnly(v) {
				return true
			}
		}
	case []interface{}:
		for _, v := range x {
			if hasForkOnly(v) {
				return true
			}
		}
	}
	return false
}

func iface(v reflect.Value) interface{} {
	if v.Kind() == reflect.Interface && v.IsNil() {
		return nil
	}
	return v.Interface()
}

func (e *engine) checkGoEncLine(worker int, raw []byte) error {
	var ln goencLine
	if err := stdjson.Unmarshal(raw, &ln); err != nil {
		return fmt.Errorf("bad goenc line: %v", err)
	}
	e.rep.Count("transitions", 1)
	e.rep.Label("GoEnc_" + fmt.Sprint(ln.G["g"]))
	viol := func(kind, detail string, extra map[string]interface{}) *lib.Violation {
		c := map[string]interface{}{"fam": "goenc", "go_value": ln.G, "spec_escaped": string(toBytes(ln.Esc)), "spec_raw": string(toBytes(ln.Raw)), "line": ln}
		for k, x := range extra {
			c[k] = x
		}
		return &lib.Violation{Property: e.prop, Kind: kind, Detail: detail,
			Sig: map[string]string{"fam": "goenc", "kind": kind, "lab": "", "lastop": "", "api": fmt.Sprint(extra["api"])}, Case: c}
	}
	hang := func() *lib.Violation { return viol("hang", "", nil) }
	var v reflect.Value
	var berr error
	if pan := e.wd.Guard(worker, hang, func() { v, berr = buildGo(ln.G) }); pan != "" || berr != nil {
		return fmt.Errorf("cannot build the Go value: %v %s", berr, firstLine(pan))
	}
	x := iface(v)
	pan := e.wd.Guard(worker, hang, func() {
		for _, c := range []struct {
			esc  bool
			want []byte
		}{{true, toBytes(ln.Esc)}, {false, toBytes(ln.Raw)}} {
			out, err := codec.MarshalEscaped(x, c.esc)
			if ln.DC {
				continue
			}
			if ln.Fails {
				if err == nil {
					e.rep.Report(viol("goenc-error", "Marshal succeeds although a MarshalJSON method fails or returns ill-formed text (GoEnc!GoFails)",
						map[string]interface{}{"api": "MarshalEscaped", "esc": c.esc, "got": string(out), "type": fmt.Sprintf("%T", x)}))
					return
				}
				if _, serr := stdjson.Marshal(x); serr == nil && !hasForkOnly(ln.G) {
					e.rep.Report(viol("std-diff", "Marshal fails where encoding/json succeeds", map[string]interface{}{"api": "Marshal", "type": fmt.Sprintf("%T", x)}))
				}
				continue
			}
			if err != nil || !bytes.Equal(out, c.want) {
				e.rep.Report(viol("goenc-bytes", "Marshal of a Go value differs from the encoding rules (GoEnc.tla)",
					map[string]interface{}{"api": "MarshalEscaped", "esc": c.esc, "got": string(out), "want": string(c.want), "err": errString(err), "type": fmt.Sprintf("%T", x)}))
				return
			}
			if hasForkOnly(ln.G) {
				continue // encoding/json does not know RedirectMarshaler / TrustMarshaler
			}
			// the standard library on the same value
			var sb bytes.Buffer
			enc := stdjson.NewEncoder(&sb)
			enc.SetEscapeHTML(c.esc)
			serr := enc.Encode(x)
			so := bytes.TrimSuffix(sb.Bytes(), []byte("\n"))
			if (serr == nil) != (err == nil) || !bytes.Equal(normBF(so), normBF(out)) {
				e.rep.Report(viol("std-diff", "Marshal differs from encoding/json on the same Go value",
					map[string]interface{}{"api": "Marshal", "fork": string(out), "std": string(so), "type": fmt.Sprintf("%T", x)}))
				return
			}
		}
		// decode what was written back into a fresh value of the same type: encoding again gives the same bytes
		if !ln.Custom && !ln.Fails && !hasForkOnly(ln.G) && (v.Kind() == reflect.Struct || v.Kind() == reflect.Map || v.Kind() == reflect.Slice) {
			p := reflect.New(v.Type())
			text := toBytes(ln.Raw)
			if err := codec.Unmarshal(text, p.Interface()); err != nil {
				if !strings.Contains(err.Error(), "cannot unmarshal") { // ",string" on a non-scalar etc. are type errors in both codecs
					e.rep.Report(viol("goenc-decode", "Unmarshal into the same type fails on the codec's own output: "+err.Error(), map[string]interface{}{"api": "Unmarshal"}))
				}
				return
			}
			sp := reflect.New(v.Type())
			serr := stdjson.Unmarshal(text, sp.Interface())
			o1, _ := codec.MarshalEscaped(p.Elem().Interface(), false)
			o2, _ := stdjson.Marshal(sp.Elem().Interface())
			var sb bytes.Buffer
			senc := stdjson.NewEncoder(&sb)
			senc.SetEscapeHTML(false)
			senc.Encode(sp.Elem().Interface())
			o2 = bytes.TrimSuffix(sb.Bytes(), []byte("\n"))
			if serr != nil || !bytes.Equal(normBF(o1), normBF(o2)) {
				e.rep.Report(viol("std-diff", "Unmarshal into a typed value differs from encoding/json",
					map[string]interface{}{"api": "Unmarshal", "fork": string(o1), "std": string(o2), "stderr": errString(serr)}))
			}
		}
	})
	e.rep.Count("executions", 1)
	if pan != "" {
		e.rep.Report(viol("panic", "the codec panicked on a Go value: "+firstLine(pan), map[string]interface{}{"api": "Marshal"}))
	}
	e.rep.Nontrivial(string(raw))
	if ln.G["g"] == "struct" {
		e.rep.Sample(map[string]interface{}{"go_type": fmt.Sprintf("%T", x), "spec_escaped": string(toBytes(ln.Esc))})
	}
	return nil
}
