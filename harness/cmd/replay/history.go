//go:build !v4

package main

import (
	"bytes"
	"encoding/json"
	"fmt"
	"math/rand"
	"sync"

	"verifharness/jsonread"
	"verifharness/lib"
)

// One maximal history of History.tla: calls (with the process that makes each) and the result the
// contract assigns to each call, plus the tables of caller-owned buffers.
type histCall struct {
	Proc int             `json:"proc"`
	API  string          `json:"api"`
	A    int             `json:"a"`
	B    int             `json:"b"`
	O    int             `json:"o"`
	OK   bool            `json:"ok"`
	V    json.RawMessage `json:"v"`
	Cls  string          `json:"cls"`
	Flag bool            `json:"flag"`
}

type histPatch struct {
	OK  bool              `json:"ok"`
	Ops []json.RawMessage `json:"ops"`
}

type histLine struct {
	Fam     string            `json:"fam"`
	Procs   int               `json:"procs"`
	Calls   []histCall        `json:"calls"`
	Docs    []json.RawMessage `json:"docs"`
	Merges  []json.RawMessage `json:"merges"`
	Patches []histPatch       `json:"patches"`
}

// guarded is a caller-owned buffer with spare capacity: a write into the spare capacity
// (an append by the callee) is seen as well as a write into the contents.
type guarded struct {
	buf  []byte // len = content, cap = content + guard
	snap []byte // copy of buf[:cap]
}

func newGuarded(content []byte) *guarded {
	const guard = 48
	b := make([]byte, len(content), len(content)+guard)
	copy(b, content)
	full := b[:cap(b)]
	for i := len(content); i < len(full); i++ {
		full[i] = 0xAA
	}
	return &guarded{buf: b, snap: append([]byte{}, full...)}
}

func (g *guarded) intact() bool { return bytes.Equal(g.buf[:cap(g.buf)], g.snap) }

type opSnap struct {
	keys map[string]string // member name -> pointer identity + content
}

// the process-wide state of a history run: buffers and decoded patches are created once and
// shared by every history of the run (and by every goroutine)
type histState struct {
	once     sync.Once
	err      error
	docs     []*guarded
	merges   []*guarded
	ptexts   []*guarded
	decoded  []lib.Patch
	patchSig []string
	first    sync.Map // call signature -> first result
	// results handed out earlier stay what they were: the slices returned by the last calls are kept
	// together with a copy and compared again later (a result that aliases pooled or input memory changes)
	keptMu sync.Mutex
	kept   []keptResult
}

type keptResult struct {
	sig  string
	out  []byte
	copy []byte
}

func (h *histState) keep(sig string, out []byte) {
	if out == nil {
		return
	}
	h.keptMu.Lock()
	defer h.keptMu.Unlock()
	h.kept = append(h.kept, keptResult{sig, out, append([]byte{}, out...)})
	if len(h.kept) > 256 {
		h.kept = h.kept[len(h.kept)-128:]
	}
}

// earlierResultsIntact reports a result of an earlier call whose bytes have changed since it was returned.
func (h *histState) earlierResultsIntact() string {
	h.keptMu.Lock()
	defer h.keptMu.Unlock()
	for _, k := range h.kept {
		if !bytes.Equal(k.out, k.copy) {
			return fmt.Sprintf("the result of an earlier call %s changed after it was returned: was %q, is now %q", k.sig, k.copy, k.out)
		}
	}
	return ""
}

var hs histState

// the buffers are spelled with insignificant white space (seeded): a callee that compacts or
// rewrites its input in place changes them
var histSpelling = jsonread.Spelling{Rnd: rand.New(rand.NewSource(20260930)), WsOnly: true}

func malformedOr(raw json.RawMessage, bad string) ([]byte, error) {
	var t struct {
		T string `json:"t"`
	}
	if err := json.Unmarshal(raw, &t); err != nil {
		return nil, err
	}
	if t.T == "malformed" {
		return []byte(bad), nil
	}
	v, err := jsonread.FromWire(raw)
	if err != nil {
		return nil, err
	}
	return histSpelling.RenderDoc(v), nil
}

// patchSignature is a deep description of a decoded Patch: for every operation the member names,
// the identity of each *RawMessage and its bytes.
func patchSignature(p lib.Patch) string {
	var b bytes.Buffer
	for i, op := range p {
		fmt.Fprintf(&b, "op%d{", i)
		for _, k := range []string{"op", "path", "from", "value"} {
			if rm, ok := op[k]; ok {
				if rm == nil {
					fmt.Fprintf(&b, "%s=nil;", k)
				} else {
					fmt.Fprintf(&b, "%s=%p:%q;", k, rm, []byte(*rm))
				}
			}
		}
		fmt.Fprintf(&b, "n=%d}", len(op))
	}
	return b.String()
}

func (h *histState) init(ln *histLine) {
	for _, d := range ln.Docs {
		t, err := malformedOr(d, `{"a":`)
		if err != nil {
			h.err = err
			return
		}
		h.docs = append(h.docs, newGuarded(t))
	}
	for _, m := range ln.Merges {
		t, err := malformedOr(m, `{"c":`)
		if err != nil {
			h.err = err
			return
		}
		h.merges = append(h.merges, newGuarded(t))
	}
	for _, p := range ln.Patches {
		text := []byte(`[{"op":`)
		if p.OK {
			t, _, err := renderPatch(histSpelling, p.Ops)
			if err != nil {
				h.err = err
				return
			}
			text = t
		}
		g := newGuarded(text)
		h.ptexts = append(h.ptexts, g)
		dec, derr := lib.DecodePatch(g.buf)
		if derr != nil {
			dec = nil
		}
		h.decoded = append(h.decoded, dec)
		h.patchSig = append(h.patchSig, patchSignature(dec))
	}
}

func (h *histState) inputsIntact() string {
	for i, g := range h.docs {
		if !g.intact() {
			return fmt.Sprintf("document buffer %d was written to", i+1)
		}
	}
	for i, g := range h.merges {
		if !g.intact() {
			return fmt.Sprintf("merge-patch buffer %d was written to", i+1)
		}
	}
	for i, g := range h.ptexts {
		if !g.intact() {
			return fmt.Sprintf("patch text buffer %d was written to", i+1)
		}
	}
	for k, n := range histNative {
		if fmt.Sprintf("%+v", *n) != histNativeSnap[k] {
			return fmt.Sprintf("the shared ApplyOptions value %d was modified", k)
		}
	}
	for i, p := range h.decoded {
		if patchSignature(p) != h.patchSig[i] {
			return fmt.Sprintf("the shared decoded Patch %d was modified", i+1)
		}
	}
	return ""
}

var histOpts = map[int]lib.Opts{1: {Neg: true, Esc: true}, 2: {Allow: true, Ensure: true}, 3: {Neg: true, Esc: true, Limit: 12}}

// ONE options value per id, shared by every call of the run (and by every goroutine): caller-owned, never to be modified
var histNative = map[int]lib.NativeOpts{1: histOpts[1].Native(), 2: histOpts[2].Native(), 3: histOpts[3].Native()}
var histNativeSnap = map[int]string{1: fmt.Sprintf("%+v", *histNative[1]), 2: fmt.Sprintf("%+v", *histNative[2]), 3: fmt.Sprintf("%+v", *histNative[3])}

type callOutcome struct {
	out  []byte
	err  error
	flag bool
	pan  string
}

func (e *engine) execCall(worker int, c *histCall, hang func() *lib.Violation) callOutcome {
	var r callOutcome
	pan := e.wd.Guard(worker, hang, func() { r = e.execCallUnguarded(c) })
	if pan != "" {
		r.pan = pan
	}
	return r
}

func (e *engine) checkHistoryLine(worker int, raw []byte) error {
	var ln histLine
	if err := json.Unmarshal(raw, &ln); err != nil {
		return fmt.Errorf("bad history line: %v", err)
	}
	hs.once.Do(func() { hs.init(&ln) })
	if hs.err != nil {
		return hs.err
	}
	e.rep.Count("transitions", 1)
	e.rep.Label(fmt.Sprintf("History_procs%d_calls%d", ln.Procs, len(ln.Calls)))
	viol := func(kind, detail string, extra map[string]interface{}) *lib.Violation {
		c := map[string]interface{}{"fam": "history", "calls": ln.Calls, "procs": ln.Procs, "line": ln}
		for k, v := range extra {
			c[k] = v
		}
		return &lib.Violation{Property: e.prop, Kind: kind, Detail: detail,
			Sig: map[string]string{"fam": "history", "kind": kind, "lab": "", "lastop": "", "api": fmt.Sprint(extra["api"])}, Case: c}
	}
	hang := func() *lib.Violation { return viol("hang", "", nil) }

	judge := func(i int, c *histCall, r callOutcome) {
		sig := fmt.Sprintf("%s(%d,%d,%d)", c.API, c.A, c.B, c.O)
		obs := map[string]interface{}{"api": c.API, "index": i, "call": sig, "out": string(r.out), "err": errString(r.err), "flag": r.flag}
		e.rep.Label("Call_" + c.API)
		if r.pan != "" {
			e.rep.Report(viol("panic", sig+" panicked: "+firstLine(r.pan), obs))
			return
		}
		var resKey string
		switch c.API {
		case "DecodePatch", "Equal":
			if r.flag != c.Flag {
				e.rep.Report(viol("result", fmt.Sprintf("%s returned %v, its arguments determine %v", sig, r.flag, c.Flag), obs))
				return
			}
			resKey = fmt.Sprint(r.flag)
		default:
			if c.OK {
				want, err := jsonread.FromWire(c.V)
				if err != nil {
					return
				}
				var got *jsonread.Value
				if r.err == nil {
					got, err = jsonread.Parse(r.out)
				}
				if r.err != nil || err != nil || got.CanonKey() != want.CanonKey() {
					e.rep.Report(viol("result", sig+" did not return the value its arguments determine ("+string(jsonread.Canonical.Render(want))+")", obs))
					return
				}
				resKey = "ok:" + string(r.out)
				if c.API == "MergePatch" || c.API == "MergeMergePatches" {
					resKey = "ok:" + got.CanonKey() // new members may come in any order: same VALUE
				}
			} else {
				if c.Cls == "dc" {
					// outside the stated domain of the operation semantics: the result is not specified, only its
					// independence of history (below) and the integrity of the inputs are
					resKey = fmt.Sprintf("dc:%v:%s", r.err == nil, r.out)
					if prev, loaded := hs.first.LoadOrStore(sig, resKey); loaded && prev.(string) != resKey {
						obs["first_result"] = prev
						e.rep.Report(viol("history-dependent", sig+" returned something else than the first time the identical call was made", obs))
					}
					hs.keep(sig, r.out)
					return
				}
				if r.err == nil {
					e.rep.Report(viol("result", sig+" succeeded, its arguments determine a failure ("+c.Cls+")", obs))
					return
				}
				ec := lib.Classify(r.err)
				if (c.Cls == "TestFailed") != ec.Test || (c.Cls == "Missing" && !ec.Missing) {
					e.rep.Report(viol("result", sig+" failed with another error class than its arguments determine ("+c.Cls+")", obs))
					return
				}
				resKey = "err"
			}
		}
		hs.keep(sig, r.out)
		// the same call gives the same result (bytes) wherever it occurs in whatever history
		if prev, loaded := hs.first.LoadOrStore(sig, resKey); loaded && prev.(string) != resKey {
			obs["first_result"] = prev
			e.rep.Report(viol("history-dependent", sig+" returned something else than the first time the identical call was made", obs))
		}
	}

	if ln.Procs <= 1 {
		for i := range ln.Calls {
			c := &ln.Calls[i]
			r := e.execCall(worker, c, hang)
			e.rep.Count("executions", 1)
			judge(i, c, r)
			if s := hs.inputsIntact(); s != "" {
				e.rep.Report(viol("input-modified", fmt.Sprintf("after call %d (%s): %s", i, c.API, s), map[string]interface{}{"api": c.API}))
				return nil
			}
			if s := hs.earlierResultsIntact(); s != "" {
				e.rep.Report(viol("result-changed-later", fmt.Sprintf("after call %d (%s): %s", i, c.API, s), map[string]interface{}{"api": c.API}))
				return nil
			}
		}
	} else {
		// one goroutine per process, each running its calls in program order, free-running
		var wg sync.WaitGroup
		results := make([]callOutcome, len(ln.Calls))
		start := make(chan struct{})
		for p := 1; p <= ln.Procs; p++ {
			wg.Add(1)
			go func(p int) {
				defer wg.Done()
				<-start
				for i := range ln.Calls {
					if ln.Calls[i].Proc == p {
						results[i] = e.execCallUnguarded(&ln.Calls[i])
					}
				}
			}(p)
		}
		pan := e.wd.Guard(worker, hang, func() { close(start); wg.Wait() })
		e.rep.Count("executions", int64(len(ln.Calls)))
		if pan != "" {
			e.rep.Report(viol("panic", "concurrent calls panicked: "+firstLine(pan), nil))
			return nil
		}
		for i := range ln.Calls {
			judge(i, &ln.Calls[i], results[i])
		}
		if s := hs.inputsIntact(); s != "" {
			e.rep.Report(viol("input-modified", s, nil))
			return nil
		}
		if ln.Procs <= 1 {
			if s := hs.earlierResultsIntact(); s != "" {
				e.rep.Report(viol("result-changed-later", s, nil))
				return nil
			}
		}
	}
	e.rep.Nontrivial(string(raw[:0]) + fmt.Sprint(callSigs(ln.Calls)))
	e.rep.Sample(map[string]interface{}{"procs": ln.Procs, "calls": callSigs(ln.Calls)})
	return nil
}

func callSigs(cs []histCall) []string {
	var out []string
	for _, c := range cs {
		out = append(out, fmt.Sprintf("p%d:%s(%d,%d,%d)", c.Proc, c.API, c.A, c.B, c.O))
	}
	return out
}

// execCallUnguarded runs a call on the current goroutine under recover() (no watchdog slot).
func (e *engine) execCallUnguarded(c *histCall) (r callOutcome) {
	defer func() {
		if x := recover(); x != nil {
			r.pan = fmt.Sprint(x)
		}
	}()
	h := &hs
	switch c.API {
	case "Apply", "ApplyIndent":
		p := h.decoded[c.B-1]
		if p == nil {
			_, r.err = lib.DecodePatch(h.ptexts[c.B-1].buf)
			return
		}
		if c.API == "Apply" {
			r.out, r.err = p.ApplyWithOptions(h.docs[c.A-1].buf, histNative[c.O])
		} else {
			r.out, r.err = p.ApplyIndentWithOptions(h.docs[c.A-1].buf, "  ", histNative[c.O])
		}
	case "DecodePatch":
		_, err := lib.DecodePatch(h.ptexts[c.A-1].buf)
		r.flag = err == nil
	case "MergePatch":
		r.out, r.err = lib.MergePatch(h.docs[c.A-1].buf, h.merges[c.B-1].buf)
	case "MergeMergePatches":
		r.out, r.err = lib.MergeMergePatches(h.merges[c.A-1].buf, h.merges[c.B-1].buf)
	case "CreateMergePatch":
		r.out, r.err = lib.CreateMergePatch(h.docs[c.A-1].buf, h.docs[c.B-1].buf)
	case "Equal":
		r.flag = lib.Equal(h.docs[c.A-1].buf, h.docs[c.B-1].buf)
	}
	return
}
