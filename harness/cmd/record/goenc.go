//go:build !v4

package main

import (
	"bytes"
	"encoding/json"
	"fmt"
	"math"
	"reflect"
	"strconv"

	codec "github.com/evanphx/json-patch/v5/verifcodec"

	"verifharness/gomodel"
)

// Direction B for C17's encoding of Go VALUES: a random Go type, a random value of it (nil and empty containers, strings
// of any bytes, floats in exponent form, omitempty / ,string / "-" / embedded fields, pointers, json.Number, and values
// of types with MarshalJSON / MarshalText / RedirectMarshalJSON / TrustMarshalJSON), encoded with MarshalEscaped (both
// settings), MarshalIndent and an Encoder.  TLC evaluates GoEnc!GoMarshal on the recorded value.

func init() { gomodel.NumberType = reflect.TypeOf(codec.Number("")) }

var goStrPool = []string{"", "a", "<&>", "\"\\\n\x01", "é ", "\xffa", "\xe2\x82", "😀", "k", "₩", "null", "1"}
var goFloatPool = []float64{0, 1.5, -2.25, 1e21, 1e-7, 2.5e-10, 100, 0.1, 1e20, 123456789, 1e-6, 9.999999e-7, math.Copysign(0, -1), 3e300}
var marshPool = []string{`{"a" : 1}`, `"< "`, " [1, 2]\n", "nul", "", `[{"k":"<"} , null]`, "1.0", `"é"`}
var trustPool = []string{`{"x": 1}`, "<raw>", "", "[1,2]", `"s"`}

// floatLit: the literal encoding/json writes for a float64 ('f' form, 'e' form below 1e-6 and from 1e21, a one-digit
// negative exponent without its leading zero).  The specification names a float64 by this literal.
func floatLit(f float64) string {
	abs := math.Abs(f)
	format := byte('f')
	if abs != 0 && (abs < 1e-6 || abs >= 1e21) {
		format = 'e'
	}
	b := strconv.AppendFloat(nil, f, format, -1, 64)
	if format == 'e' {
		if n := len(b); n >= 4 && b[n-4] == 'e' && b[n-3] == '-' && b[n-2] == '0' {
			b[n-2] = b[n-1]
			b = b[:n-1]
		}
	}
	return string(b)
}

func (r *recorder) genEncType(depth int) gomodel.M {
	if r.rnd.Intn(7) == 0 {
		return []gomodel.M{{"g": "marsh", "text": []interface{}{}, "fail": false}, {"g": "textm", "text": []interface{}{}},
			{"g": "redir", "v": gomodel.Iface()}, {"g": "trust", "b": []interface{}{}}, {"g": "number", "lit": []interface{}{}}}[r.rnd.Intn(5)]
	}
	n := 12
	if depth <= 0 {
		n = 6
	}
	switch r.rnd.Intn(n) {
	case 0:
		return gomodel.Iface()
	case 1:
		return gomodel.Bool()
	case 2:
		return gomodel.Int()
	case 3:
		return gomodel.Float()
	case 4:
		return gomodel.Str()
	case 5:
		return []gomodel.M{gomodel.ByteSlice(), gomodel.Slice(), gomodel.Map()}[r.rnd.Intn(3)]
	case 6:
		return gomodel.TSlice(r.genEncType(depth - 1))
	case 7:
		return gomodel.TMap(r.genEncType(depth - 1))
	case 8:
		return gomodel.Ptr(r.genEncType(depth - 1))
	default:
		return r.genEncStruct(depth, false)
	}
}

func (r *recorder) genEncStruct(depth int, embedded bool) gomodel.M {
	pool := fieldNames
	if embedded {
		pool = embNames
	}
	perm := r.rnd.Perm(len(pool))
	nf := 1 + r.rnd.Intn(4)
	used := map[string]bool{}
	var fs []gomodel.M
	for i := 0; i < nf && i < len(pool); i++ {
		name := pool[perm[i]]
		tname := ""
		if !embedded {
			tname = tagNames[r.rnd.Intn(len(tagNames))]
		}
		jn := name
		if tname != "" {
			jn = tname
		}
		if used[jn] {
			tname, jn = "", name
			if used[jn] {
				continue
			}
		}
		used[jn] = true
		dash := r.rnd.Intn(12) == 0
		f := gomodel.Field(name, r.genEncType(depth-1), tname, !dash && r.rnd.Intn(5) == 0, dash, false)
		if !dash && r.rnd.Intn(3) == 0 {
			f["omitempty"], f["tagged"] = true, true
		}
		fs = append(fs, f)
	}
	if !embedded && depth > 0 && r.rnd.Intn(4) == 0 {
		at := r.rnd.Intn(len(fs) + 1)
		emb := gomodel.Field("Emb", r.genEncStruct(depth-1, true), "", false, false, true)
		fs = append(fs[:at], append([]gomodel.M{emb}, fs[at:]...)...)
	}
	return gomodel.Struct(fs...)
}

func bytesModel(s string) []interface{} { return gomodel.Bytes([]byte(s)) }

// genGo: a value model of the static type t
func (r *recorder) genGo(t gomodel.M, depth int) gomodel.M {
	zero := r.rnd.Intn(5) == 0 // zero values matter for omitempty
	switch t["g"] {
	case "nil":
		if zero || depth <= 0 && r.rnd.Intn(2) == 0 {
			return gomodel.M{"g": "nil"}
		}
		for {
			it := r.genEncType(depth - 1)
			if it["g"] != "nil" {
				return gomodel.M{"g": "iface", "v": r.genGo(it, depth-1)} // a non-nil interface holding a value of type it
			}
		}
	case "bool":
		return gomodel.M{"g": "bool", "b": !zero && r.rnd.Intn(2) == 0}
	case "int":
		if zero {
			return gomodel.Int()
		}
		return gomodel.M{"g": "int", "i": float64(r.rnd.Intn(2001) - 1000)}
	case "float":
		if zero {
			return gomodel.Float()
		}
		return gomodel.M{"g": "float", "lit": bytesModel(floatLit(goFloatPool[r.rnd.Intn(len(goFloatPool))]))}
	case "str":
		if zero {
			return gomodel.Str()
		}
		return gomodel.M{"g": "str", "bytes": bytesModel(r.pick(goStrPool))}
	case "number":
		return gomodel.M{"g": "number", "lit": bytesModel(r.pick([]string{"0", "1.0", "-0", "1e400", "0.10", "12345678901234567890"}))}
	case "bytes":
		if zero {
			return gomodel.ByteSlice()
		}
		return gomodel.M{"g": "bytes", "nil": false, "b": bytesModel(r.pick([]string{"", "a", "ab", "abc", "\xff\xfe\xfd\x00"}))}
	case "marsh":
		return gomodel.M{"g": "marsh", "text": bytesModel(r.pick(marshPool)), "fail": r.rnd.Intn(10) == 0}
	case "textm":
		return gomodel.M{"g": "textm", "text": bytesModel(r.pick(goStrPool))}
	case "trust":
		return gomodel.M{"g": "trust", "b": bytesModel(r.pick(trustPool))}
	case "redir":
		return gomodel.M{"g": "redir", "v": r.genGo(gomodel.Iface(), depth-1)}
	case "slice", "tslice":
		et := gomodel.Iface()
		out := gomodel.M{"g": t["g"], "nil": zero, "e": []interface{}{}}
		if t["g"] == "tslice" {
			et = t["z"].(gomodel.M)
			out["z"] = et
		}
		if !zero {
			es := []interface{}{}
			for i, n := 0, r.rnd.Intn(3); i < n; i++ {
				es = append(es, r.genGo(et, depth-1))
			}
			out["e"] = es
		}
		return out
	case "map", "tmap":
		et := gomodel.Iface()
		out := gomodel.M{"g": t["g"], "nil": zero, "m": []interface{}{}}
		if t["g"] == "tmap" {
			et = t["z"].(gomodel.M)
			out["z"] = et
		}
		if !zero {
			ms := []interface{}{}
			seen := map[string]bool{}
			for i, n := 0, r.rnd.Intn(3); i < n; i++ {
				k := r.pick([]string{"b", "a", "", "<", "é", "B", "10", "9"})
				if seen[k] {
					continue
				}
				seen[k] = true
				ms = append(ms, gomodel.M{"k": bytesModel(k), "v": r.genGo(et, depth-1)})
			}
			out["m"] = ms
		}
		return out
	case "ptr":
		if zero {
			return gomodel.M{"g": "ptr", "nil": true, "v": t["v"]}
		}
		return gomodel.M{"g": "ptr", "nil": false, "v": r.genGo(t["v"].(gomodel.M), depth-1)}
	case "struct":
		fs := []interface{}{}
		for _, e := range t["f"].([]interface{}) {
			f := e.(gomodel.M)
			c := gomodel.M{}
			for k, x := range f {
				c[k] = x
			}
			name := string(gomodelBytes(f["name"]))
			if name[0] >= 'a' && name[0] <= 'z' {
				c["v"] = f["v"] // an unexported field cannot be set: it keeps its zero value
			} else {
				c["v"] = r.genGo(f["v"].(gomodel.M), depth-1)
			}
			fs = append(fs, c)
		}
		return gomodel.M{"g": "struct", "f": fs}
	}
	return gomodel.M{"g": "nil"}
}

func (r *recorder) goencTrace() {
	t := r.genEncType(3)
	r.execGoEnc(r.genGo(t, 3), t)
}

func (r *recorder) execGoEnc(g, t gomodel.M) {
	v, err := gomodel.Build(g, t)
	if err != nil {
		fmt.Println("record: cannot build value:", err)
		return
	}
	var x interface{}
	if !(v.Kind() == reflect.Interface && v.IsNil()) {
		x = v.Interface()
	}
	first := r.line + 1
	e := ev{"ev": "goenc", "g": g, "panic": false, "gotype": fmt.Sprintf("%T", x)}
	func() {
		defer func() {
			if p := recover(); p != nil {
				e["panic"] = true
				r.panics++
			}
		}()
		for _, esc := range []bool{true, false} {
			k := map[bool]string{true: "esc", false: "raw"}[esc]
			out, err := codec.MarshalEscaped(x, esc)
			e[k+"_ok"], e[k] = err == nil, bw(out)
		}
		out, err := codec.MarshalIndent(x, ">", "  ")
		e["indent_ok"], e["indent"] = err == nil, bw(out)
		var sb bytes.Buffer
		enc := codec.NewEncoder(&sb)
		enc.SetEscapeHTML(false)
		err = enc.Encode(x)
		e["stream_ok"], e["stream"] = err == nil, bw(sb.Bytes())
	}()
	r.emit(e)
	r.index = append(r.index, map[string]interface{}{"first": first, "last": r.line, "fam": "goenc", "go_type": fmt.Sprintf("%T", x), "g": g, "t": t})
}

func init() {
	extraFamilies["goenc"] = (*recorder).goencTrace
	extraReplays["goenc"] = func(r *recorder, raw json.RawMessage) error {
		var c struct {
			G gomodel.M `json:"g"`
			T gomodel.M `json:"t"`
		}
		if err := json.Unmarshal(raw, &c); err != nil {
			return err
		}
		r.execGoEnc(c.G, c.T)
		return nil
	}
}
