//go:build !v4

package main

import (
	"bytes"
	"encoding/json"
	"fmt"
	"reflect"
	"strings"

	codec "github.com/evanphx/json-patch/v5/verifcodec"

	"verifharness/gomodel"
	"verifharness/jsonread"
)

// Direction B for C17's typed decoding: a random Go type (run-time generated struct types included), a JSON text aimed at
// it (fitting values, values of the wrong kind, member names that match exactly / by case folding / not at all, repeated
// names, `,string` contents of every sort), decoded with Unmarshal (always UseNumber in this fork) or with a Decoder
// (with and without UseNumber).  The event carries the type, the text, the value stored and whether an error was
// returned; TLC evaluates GoDec!Dec on the same type and text.

var fieldNames = []string{"A", "B", "C", "Ab", "AB", "S", "Ak", "Key", "x", "y"}
var embNames = []string{"X", "Y", "Zed", "q"}
var tagNames = []string{"", "", "", "n", "aK", "f", "key", "s"}

func (r *recorder) genType(depth int, embedded bool) gomodel.M {
	n := 12
	if depth <= 0 {
		n = 6
	}
	switch r.rnd.Intn(n) {
	case 0:
		return gomodel.Iface()
	case 1:
		return gomodel.Bool()
	case 2:
		return gomodel.Int()
	case 3:
		return gomodel.Float()
	case 4:
		return gomodel.Str()
	case 5:
		return []gomodel.M{gomodel.ByteSlice(), gomodel.Slice(), gomodel.Map(), {"g": "number", "lit": []interface{}{}}}[r.rnd.Intn(4)]
	case 6:
		return gomodel.TSlice(r.genType(depth-1, false))
	case 7:
		return gomodel.TMap(r.genType(depth-1, false))
	case 8:
		return gomodel.Ptr(r.genType(depth-1, false))
	default:
		return r.genStruct(depth, false)
	}
}

func scalarKind(t gomodel.M) bool {
	g := t["g"]
	if g == "ptr" {
		g = t["v"].(gomodel.M)["g"]
	}
	return g == "bool" || g == "int" || g == "float" || g == "str" || g == "number"
}

func (r *recorder) genStruct(depth int, embedded bool) gomodel.M {
	pool := fieldNames
	if embedded {
		pool = embNames
	}
	perm := r.rnd.Perm(len(pool))
	nf := 1 + r.rnd.Intn(4)
	if nf > len(pool) {
		nf = len(pool)
	}
	used := map[string]bool{}
	var fs []gomodel.M
	for i := 0; i < nf; i++ {
		name := pool[perm[i]]
		ft := r.genType(depth-1, false)
		tname := ""
		if !embedded {
			tname = tagNames[r.rnd.Intn(len(tagNames))]
		}
		jn := name
		if tname != "" {
			jn = tname
		}
		if used[jn] {
			tname, jn = "", name
			if used[jn] {
				continue
			}
		}
		used[jn] = true
		dash := r.rnd.Intn(12) == 0
		str := !dash && r.rnd.Intn(5) == 0
		fs = append(fs, gomodel.Field(name, ft, tname, str, dash, false))
	}
	if !embedded && depth > 0 && r.rnd.Intn(4) == 0 {
		// an embedded struct whose (promoted) field names come from a pool of their own
		at := r.rnd.Intn(len(fs) + 1)
		emb := gomodel.Field("Emb", r.genStruct(depth-1, true), "", false, false, true)
		fs = append(fs[:at], append([]gomodel.M{emb}, fs[at:]...)...)
	}
	return gomodel.Struct(fs...)
}

func hasTSlice(t gomodel.M) bool {
	switch t["g"] {
	case "tslice":
		return true
	case "tmap":
		return false // elements are decoded into fresh zero values
	case "ptr":
		return hasTSlice(t["v"].(gomodel.M))
	case "struct":
		for _, e := range t["f"].([]interface{}) {
			if hasTSlice(e.(gomodel.M)["v"].(gomodel.M)) {
				return true
			}
		}
	}
	return false
}

var intLits = []string{"0", "7", "-12", "-0", "999999999", "9223372036854775808", "-9223372036854775809", "1.0", "1e2", "1.5", "12"}
var floatLits = []string{"0", "1.5", "-0", "1e2", "1E+2", "0.1", "1e-7", "100", "1e400", "-1e999", "2.5e-10", "10e-1", "1.0"}
var b64Lits = []string{"", "YQ==", "YWI=", "YWJj", "YQ", "!!!!", "YWJjZA==", "=YQ="}

func (r *recorder) wrongKind() *jsonread.Value {
	switch r.rnd.Intn(7) {
	case 0:
		return jsonread.Null()
	case 1:
		return jsonread.Bool(r.rnd.Intn(2) == 0)
	case 2:
		return jsonread.Num(r.pick(intLits))
	case 3:
		return jsonread.Str(r.pick(strPool))
	case 4:
		return jsonread.Arr()
	case 5:
		return jsonread.Obj()
	default:
		return jsonread.Arr(jsonread.Num("1"), jsonread.Str("a"))
	}
}

func flipCase(s string, r *recorder) string {
	b := []rune(s)
	for i, c := range b {
		if r.rnd.Intn(2) == 0 {
			continue
		}
		switch {
		case c >= 'a' && c <= 'z':
			b[i] = c - 32
		case c >= 'A' && c <= 'Z':
			b[i] = c + 32
		}
		if (c == 'k' || c == 'K') && r.rnd.Intn(3) == 0 {
			b[i] = 0x212A // KELVIN SIGN folds to k
		}
		if (c == 's' || c == 'S') && r.rnd.Intn(3) == 0 {
			b[i] = 0x17F // LONG S folds to s
		}
	}
	return string(b)
}

// genFor: a JSON value aimed at the type t.  dupOK: the target may be decoded into twice (no typed slice inside).
func (r *recorder) genFor(t gomodel.M, depth int) *jsonread.Value {
	if r.rnd.Intn(6) == 0 && t["g"] != "bytes" {
		return r.wrongKind()
	}
	switch t["g"] {
	case "nil":
		return r.genValue(2)
	case "bool":
		return jsonread.Bool(r.rnd.Intn(2) == 0)
	case "int":
		return jsonread.Num(r.pick(intLits))
	case "float":
		return jsonread.Num(r.pick(floatLits))
	case "str":
		return jsonread.Str(r.pick(strPool))
	case "number":
		if r.rnd.Intn(3) == 0 {
			return jsonread.Str(r.pick([]string{"1", "-0.5e3", "1e400", "", "x", "01", "1 ", "0x1"}))
		}
		return jsonread.Num(r.pick(floatLits))
	case "bytes":
		if r.rnd.Intn(5) == 0 {
			return []*jsonread.Value{jsonread.Null(), jsonread.Num("1"), jsonread.Obj(), jsonread.Bool(true)}[r.rnd.Intn(4)]
		}
		return jsonread.Str(r.pick(b64Lits))
	case "slice", "map":
		v := r.genValue(2)
		if t["g"] == "slice" && v.T != "arr" {
			return jsonread.Arr(v)
		}
		if t["g"] == "map" && v.T != "obj" {
			return jsonread.Obj(jsonread.M("a", v), jsonread.M(r.pick(keyPool), r.genValue(1)))
		}
		return v
	case "tslice":
		n := r.rnd.Intn(4)
		var es []*jsonread.Value
		for i := 0; i < n; i++ {
			es = append(es, r.genFor(t["z"].(gomodel.M), depth-1))
		}
		return jsonread.Arr(es...)
	case "tmap":
		n := r.rnd.Intn(4)
		var ms []jsonread.Member
		for i := 0; i < n; i++ {
			k := r.pick(keyPool)
			if i > 0 && r.rnd.Intn(4) == 0 {
				k = string(ms[0].K) // a repeated name: the entry is replaced by a freshly decoded element
			}
			ms = append(ms, jsonread.M(k, r.genFor(t["z"].(gomodel.M), depth-1)))
		}
		return jsonread.Obj(ms...)
	case "ptr":
		return r.genFor(t["v"].(gomodel.M), depth)
	case "struct":
		type fld struct {
			jname string
			t     gomodel.M
			str   bool
		}
		var fl []fld
		var walk func(s gomodel.M)
		walk = func(s gomodel.M) {
			for _, e := range s["f"].([]interface{}) {
				f := e.(gomodel.M)
				ft := f["v"].(gomodel.M)
				if f["anon"].(bool) && ft["g"] == "struct" {
					walk(ft)
					continue
				}
				name := string(gomodelBytes(f["name"]))
				if tn := string(gomodelBytes(f["tname"])); tn != "" {
					name = tn
				}
				fl = append(fl, fld{name, ft, f["str"].(bool) && scalarKind(ft)})
			}
		}
		walk(t)
		var ms []jsonread.Member
		n := r.rnd.Intn(len(fl) + 2)
		seen := map[int]bool{}
		for i := 0; i < n && len(fl) > 0; i++ {
			k := r.rnd.Intn(len(fl))
			f := fl[k]
			seen[k] = true
			name := f.jname
			switch r.rnd.Intn(5) {
			case 0:
				name = flipCase(name, r)
			case 1:
				name = strings.ToLower(name)
			}
			var v *jsonread.Value
			if f.str {
				v = r.genQuoted(f.t)
			} else {
				v = r.genFor(f.t, depth-1)
			}
			ms = append(ms, jsonread.M(name, v))
		}
		if r.rnd.Intn(3) == 0 {
			at := r.rnd.Intn(len(ms) + 1)
			ms = append(ms[:at], append([]jsonread.Member{jsonread.M(r.pick([]string{"zz", "", "-", "Emb", "emb"}), r.genValue(1))}, ms[at:]...)...)
		}
		return jsonread.Obj(ms...)
	}
	return jsonread.Null()
}

func gomodelBytes(x interface{}) []byte {
	a, _ := x.([]interface{})
	b := make([]byte, len(a))
	for i, c := range a {
		b[i] = byte(c.(float64))
	}
	return b
}

// genQuoted: the JSON value given to a field with the `,string` option
func (r *recorder) genQuoted(t gomodel.M) *jsonread.Value {
	switch r.rnd.Intn(10) {
	case 0:
		return jsonread.Null()
	case 1:
		return r.wrongKind()
	case 2:
		return jsonread.Str(r.pick([]string{"", "null", "nil", "true", "false", "tru", "\"a\"", "\"a", "\"\\u00e9\"", "x", "-", "+1"}))
	}
	g := t["g"]
	if g == "ptr" {
		g = t["v"].(gomodel.M)["g"]
	}
	switch g {
	case "number":
		return jsonread.Str(r.pick([]string{"1.5", "-0", "1x", "\"1\"", "\"x\"", "true", "07", "1e400"}))
	case "bool":
		return jsonread.Str(r.pick([]string{"true", "false", "null", "1", "\"true\""}))
	case "int":
		return jsonread.Str(r.pick([]string{"7", "-12", "007", "1.5", "1x", "9223372036854775808", "0", "-0", "true", "\"7\""}))
	case "float":
		// contents that are JSON numbers, or that fail before strconv.ParseFloat is reached
		return jsonread.Str(r.pick([]string{"1.5", "-0", "1e2", "1e400", "0.1", "true", "\"1\"", "x1", "100"}))
	default:
		return jsonread.Str(r.pick([]string{"\"a\"", "\"\"", "\"<\\n\"", "a", "\"a\" ", "7", "null", "\"\\ud83d\\ude00\""}))
	}
}

func (r *recorder) godecTrace() {
	t := r.genType(3, false)
	v := r.genFor(t, 3)
	r.execGoDec(t, r.spelling().RenderDoc(v), []string{"Unmarshal", "Decoder", "Decoder.UseNumber", "Decoder.Strict"})
}

func (r *recorder) execGoDec(t gomodel.M, text []byte, apis []string) {
	rt, err := gomodel.TypeOf(t)
	if err != nil {
		fmt.Println("record: cannot build type:", err)
		return
	}
	for _, api := range apis {
		first := r.line + 1
		p := reflect.New(rt)
		e := ev{"ev": "godec", "api": api, "un": api == "Unmarshal" || api == "Decoder.UseNumber", "strict": api == "Decoder.Strict", "t": t, "text": bw(text), "panic": false, "err": false, "got": gomodel.M{"g": "nil"}, "gotype": rt.String()}
		func() {
			defer func() {
				if x := recover(); x != nil {
					e["panic"] = true
					r.panics++
				}
			}()
			var derr error
			switch api {
			case "Unmarshal":
				derr = codec.Unmarshal(text, p.Interface())
			case "Decoder":
				derr = codec.NewDecoder(bytes.NewReader(text)).Decode(p.Interface())
			case "Decoder.Strict":
				d := codec.NewDecoder(bytes.NewReader(text))
				d.DisallowUnknownFields()
				derr = d.Decode(p.Interface())
			default:
				d := codec.NewDecoder(bytes.NewReader(text))
				d.UseNumber()
				derr = d.Decode(p.Interface())
			}
			e["err"] = derr != nil
			e["got"] = gomodel.ValueModel(p.Elem(), t)
		}()
		r.emit(e)
		r.index = append(r.index, map[string]interface{}{"first": first, "last": r.line, "fam": "godec", "api": api, "go_type": rt.String(), "text": string(text), "text_bytes": bw(text), "t": t})
	}
}

func init() {
	extraFamilies["godec"] = (*recorder).godecTrace
	extraReplays["godec"] = func(r *recorder, raw json.RawMessage) error {
		var c struct {
			TextBytes []int     `json:"text_bytes"`
			T         gomodel.M `json:"t"`
			API       string    `json:"api"`
		}
		if err := json.Unmarshal(raw, &c); err != nil {
			return err
		}
		b := make([]byte, len(c.TextBytes))
		for i, x := range c.TextBytes {
			b[i] = byte(x)
		}
		r.execGoDec(c.T, b, []string{c.API})
		return nil
	}
}
