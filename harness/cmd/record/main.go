// Command record is direction B of the conformance machinery: seeded drivers exercise the real
// library on inputs far outside any TLC constant set (deep nesting, awkward member names and
// literals, long patches), and write what the real code did as ndjson events - one event per
// specification action, logged at the public call's return with arguments and the projected
// result.  TLC then checks the file against spec/TraceApi.tla, which is built from the same
// operators as the reference machines.  The driver contains generators, never oracles.
//
// Wire rules (DESIGN.md Appendix A.1): no JSON null, no optional fields, no non-integer numbers.
package main

import (
	"bufio"
	"encoding/json"
	"flag"
	"fmt"
	"math/rand"
	"os"
	"strings"

	"verifharness/jsonread"
	"verifharness/lib"
)

type ev map[string]interface{}

type recorder struct {
	w      *bufio.Writer
	line   int
	index  []map[string]interface{} // one entry per trace: first line, inputs
	rnd    *rand.Rand
	rich   bool
	panics int
	// withBytes: the raw output bytes travel with every successful event (C15: the specification's grammar reads them)
	withBytes bool
}

func (r *recorder) emit(e ev) {
	b, err := json.Marshal(e)
	if err != nil {
		fmt.Fprintln(os.Stderr, "record:", err)
		os.Exit(2)
	}
	r.w.Write(b)
	r.w.WriteByte('\n')
	r.line++
}

// ---------------------------------------------------------------------------
// generators
// ---------------------------------------------------------------------------

var keyPool = []string{"a", "b", "c", "d", "", "a/b", "m~n", "0", "1", "-", "~1", "é", "<k>", `"q"`, " ", "k ", "\\", "x y", "01", "n\nl", "\x07", "t\tb"}
var strPool = []string{"", "s", "x", "<", "&>", "a/b", " ", "\"\\", "\x01\t\n", "é€😀", "~0~1", "null", "0", "\u20a9\u2228", "\u2028\u2029"}
var numPool = []string{"0", "1", "2", "-1", "1.0", "1e400", "-0", "12345678901234567890123", "1234567890123456789012345678901234567890123456789012345678901234567890", "0.1234567890123456789012345678901234567890123456789012345678901234567890e-5", "1E+2", "0.10", "1e-7", "100", "1.5", "-1.5e+3"}

func (r *recorder) pick(pool []string) string { return pool[r.rnd.Intn(len(pool))] }

func (r *recorder) genValue(depth int) *jsonread.Value {
	k := r.rnd.Intn(10)
	if depth <= 0 && k >= 6 {
		k = r.rnd.Intn(6)
	}
	switch k {
	case 0:
		return jsonread.Null()
	case 1:
		return jsonread.Bool(r.rnd.Intn(2) == 0)
	case 2, 3:
		return jsonread.Num(r.pick(numPool))
	case 4, 5:
		return jsonread.Str(r.pick(strPool))
	case 6, 7:
		n := r.rnd.Intn(4)
		v := jsonread.Arr()
		for i := 0; i < n; i++ {
			v.E = append(v.E, r.genValue(depth-1))
		}
		return v
	default:
		return r.genObject(depth)
	}
}

func (r *recorder) genObject(depth int) *jsonread.Value {
	n := r.rnd.Intn(5)
	v := jsonread.Obj()
	seen := map[string]bool{}
	for i := 0; i < n; i++ {
		k := r.pick(keyPool)
		if !r.rich {
			k = keyPool[r.rnd.Intn(4)]
		}
		if seen[k] {
			continue
		}
		seen[k] = true
		v.M = append(v.M, jsonread.M(k, r.genValue(depth-1)))
	}
	return v
}

func (r *recorder) genRoot(depth int) *jsonread.Value {
	if r.rnd.Intn(3) == 0 {
		n := r.rnd.Intn(4)
		v := jsonread.Arr()
		for i := 0; i < n; i++ {
			v.E = append(v.E, r.genValue(depth-1))
		}
		return v
	}
	return r.genObject(depth)
}

// paths of a value as sequences of decoded tokens
func paths(v *jsonread.Value, prefix []string, out *[][]string) {
	*out = append(*out, append([]string{}, prefix...))
	switch v.T {
	case "obj":
		for _, m := range v.M {
			paths(m.V, append(prefix, string(m.K)), out)
		}
	case "arr":
		for i, e := range v.E {
			paths(e, append(prefix, fmt.Sprint(i)), out)
		}
	}
}

func at(v *jsonread.Value, p []string) *jsonread.Value {
	for _, t := range p {
		switch v.T {
		case "obj":
			var nx *jsonread.Value
			for _, m := range v.M {
				if string(m.K) == t {
					nx = m.V
				}
			}
			if nx == nil {
				return nil
			}
			v = nx
		case "arr":
			i := -1
			fmt.Sscanf(t, "%d", &i)
			if i < 0 || i >= len(v.E) {
				return nil
			}
			v = v.E[i]
		default:
			return nil
		}
	}
	return v
}

func ptrText(p []string) string {
	var b strings.Builder
	for _, t := range p {
		b.WriteByte('/')
		b.WriteString(strings.ReplaceAll(strings.ReplaceAll(t, "~", "~0"), "/", "~1"))
	}
	return b.String()
}

// genPointer draws a pointer from the current document: a resolvable one, or a near miss.
func (r *recorder) genPointer(cur *jsonread.Value, forAdd bool) []string {
	var ps [][]string
	paths(cur, nil, &ps)
	p := ps[r.rnd.Intn(len(ps))]
	node := at(cur, p)
	roll := r.rnd.Intn(10)
	if roll < 4 && len(p) > 0 && !forAdd {
		return p
	}
	// extend by one token below a node
	tok := ""
	switch node.T {
	case "obj":
		switch r.rnd.Intn(4) {
		case 0:
			if len(node.M) > 0 {
				tok = string(node.M[r.rnd.Intn(len(node.M))].K)
			} else {
				tok = "q"
			}
		case 1:
			tok = r.pick(keyPool)
		default:
			tok = []string{"q", "q/r", "q~r", "7", "new"}[r.rnd.Intn(5)]
		}
		if tok == "" {
			tok = "q"
		}
	case "arr":
		n := len(node.E)
		cands := []string{fmt.Sprint(n), "-", "0", fmt.Sprint(n + 1), "-1", fmt.Sprint(-n), fmt.Sprint(-n - 1), fmt.Sprint(-n - 2), "x"}
		if n > 0 {
			cands = append(cands, fmt.Sprint(r.rnd.Intn(n)), fmt.Sprint(r.rnd.Intn(n)), fmt.Sprint(n-1))
		}
		tok = cands[r.rnd.Intn(len(cands))]
	default:
		if len(p) > 0 && roll < 8 {
			return p
		}
		tok = "q"
	}
	q := append(append([]string{}, p...), tok)
	if r.rnd.Intn(12) == 0 {
		q = append(q, "r") // absent ancestor
	}
	return q
}

type genOp struct {
	Op    string
	Path  string
	From  string
	Value *jsonread.Value
}

func (o genOp) wire() map[string]interface{} {
	m := map[string]interface{}{"op": o.Op, "path": jsonread.CpWire([]rune(o.Path))}
	switch o.Op {
	case "move", "copy":
		m["from"] = jsonread.CpWire([]rune(o.From))
	case "add", "replace", "test":
		m["value"] = o.Value.Wire()
	}
	return m
}

func (o genOp) text(sp jsonread.Spelling) string {
	var b strings.Builder
	b.WriteString(`{"op":"` + o.Op + `"`)
	if o.Op == "move" || o.Op == "copy" {
		b.WriteString(`,"from":`)
		sp.WriteString(&b, []rune(o.From))
	}
	b.WriteString(`,"path":`)
	sp.WriteString(&b, []rune(o.Path))
	if o.Op == "add" || o.Op == "replace" || o.Op == "test" {
		b.WriteString(`,"value":`)
		b.Write(sp.Render(o.Value))
	}
	b.WriteString("}")
	return b.String()
}

func (r *recorder) genOp(cur *jsonread.Value) genOp {
	kinds := []string{"add", "add", "remove", "replace", "move", "copy", "test", "test"}
	k := kinds[r.rnd.Intn(len(kinds))]
	o := genOp{Op: k}
	switch k {
	case "add":
		o.Path = ptrText(r.genPointer(cur, true))
		o.Value = r.genValue(2)
	case "replace":
		o.Path = ptrText(r.genPointer(cur, false))
		o.Value = r.genValue(2)
	case "remove":
		o.Path = ptrText(r.genPointer(cur, false))
	case "move", "copy":
		o.From = ptrText(r.genPointer(cur, false))
		o.Path = ptrText(r.genPointer(cur, true))
	case "test":
		p := r.genPointer(cur, false)
		o.Path = ptrText(p)
		if v := at(cur, p); v != nil && r.rnd.Intn(3) > 0 {
			o.Value = v.Clone()
			if o.Value.T == "obj" && len(o.Value.M) > 1 && r.rnd.Intn(2) == 0 { // reordered members: still equal
				o.Value.M[0], o.Value.M[len(o.Value.M)-1] = o.Value.M[len(o.Value.M)-1], o.Value.M[0]
			}
		} else {
			o.Value = r.genValue(1)
		}
	}
	return o
}

// ---------------------------------------------------------------------------
// the patch driver: one trace = Reset + one event per operation (prefix by prefix)
// ---------------------------------------------------------------------------

func (r *recorder) patchTrace(maxOps int) {
	doc := r.genRoot(3)
	o := lib.Opts{Neg: r.rnd.Intn(3) > 0, Esc: r.rnd.Intn(3) > 0, Allow: r.rnd.Intn(4) == 0, Ensure: r.rnd.Intn(4) == 0}
	if r.rnd.Intn(4) == 0 {
		o.Limit = 1 + r.rnd.Intn(40)
	}
	if !lib.Supported(o) {
		o = lib.Opts{Neg: o.Neg, Limit: o.Limit, Esc: true}
	}
	sp := jsonread.Canonical
	if r.rnd.Intn(2) == 0 {
		sp = jsonread.Spelling{Rnd: rand.New(rand.NewSource(r.rnd.Int63())), WsOnly: lib.Dialect == "v4" || o.Limit > 0}
	}
	n := 1 + r.rnd.Intn(maxOps)
	r.execPatch(sp.RenderDoc(doc), doc, o, n, func(cur *jsonread.Value, i int) (genOp, string) {
		op := r.genOp(cur)
		return op, op.text(sp)
	})
}

// execPatch records one patch trace: Reset, then one event per operation (prefix by prefix).
// next supplies the i-th operation (generated from the current document, or replayed from a case).
func (r *recorder) execPatch(docText []byte, doc *jsonread.Value, o lib.Opts, n int, next func(cur *jsonread.Value, i int) (genOp, string)) {
	first := r.line + 1
	r.emit(ev{"ev": "Reset", "doc": doc.Wire(), "opts": o})
	cur := doc
	var texts []string
	for i := 0; i < n; i++ {
		op, text := next(cur, i)
		texts = append(texts, text)
		patch := []byte("[" + strings.Join(texts, ",") + "]")
		out, aerr, derr, pan := guardedApply(docText, patch, o)
		e := ev{"ev": "op", "op": op.wire(), "ok": false, "post": jsonread.Null().Wire(),
			"errc": lib.ErrClass{}, "panic": pan != "", "decode": derr != nil, "outnil": out == nil, "malformed": false, "bytes": []int{}}
		if pan != "" {
			r.panics++
		}
		stop := true
		if pan == "" && derr == nil {
			if aerr == nil {
				v, perr := jsonread.Parse(out)
				if perr != nil {
					e["malformed"] = true
				} else {
					e["ok"], e["post"] = true, v.Wire()
					if r.withBytes {
						e["bytes"] = jsonread.BytesWire(out)
					}
					cur = v
					stop = false
				}
			} else {
				e["errc"] = lib.Classify(aerr)
			}
		}
		r.emit(e)
		if stop {
			break
		}
	}
	r.index = append(r.index, map[string]interface{}{"first": first, "last": r.line, "fam": "patch",
		"doc_text": string(docText), "patch_text": "[" + strings.Join(texts, ",") + "]", "opts": o})
}

func guardedApply(doc, patch []byte, o lib.Opts) (out []byte, aerr, derr error, pan string) {
	defer func() {
		if x := recover(); x != nil {
			pan = fmt.Sprint(x)
		}
	}()
	out, aerr, derr = lib.Apply(doc, patch, o, "")
	return
}

func guarded2(f func(a, b []byte) ([]byte, error), a, b []byte) (out []byte, err error, pan string) {
	defer func() {
		if x := recover(); x != nil {
			pan = fmt.Sprint(x)
		}
	}()
	out, err = f(a, b)
	return
}

// ---------------------------------------------------------------------------
// the merge drivers
// ---------------------------------------------------------------------------

// mutate returns an edited copy of v: members deleted, retyped, changed at depth, nulled.
func (r *recorder) mutate(v *jsonread.Value, depth int) *jsonread.Value {
	c := v.Clone()
	if c.T == "arr" && depth > 0 && len(c.E) > 0 && r.rnd.Intn(3) > 0 {
		// edit inside an array: change, drop or duplicate one element
		i := r.rnd.Intn(len(c.E))
		switch r.rnd.Intn(4) {
		case 0:
			c.E = append(c.E[:i], c.E[i+1:]...)
		case 1:
			c.E = append(c.E, c.E[i].Clone())
		default:
			c.E[i] = r.mutate(c.E[i], depth-1)
		}
		return c
	}
	if c.T != "obj" || depth <= 0 {
		if r.rnd.Intn(3) == 0 {
			return r.genValue(1)
		}
		return c
	}
	var ms []jsonread.Member
	for _, m := range c.M {
		switch r.rnd.Intn(6) {
		case 0: // delete
		case 1:
			ms = append(ms, jsonread.Member{K: m.K, V: r.genValue(1)})
		case 2:
			ms = append(ms, jsonread.Member{K: m.K, V: r.mutate(m.V, depth-1)})
		default:
			ms = append(ms, m)
		}
	}
	if r.rnd.Intn(2) == 0 {
		k := r.pick(keyPool)
		dup := false
		for _, m := range ms {
			if string(m.K) == k {
				dup = true
			}
		}
		if !dup {
			ms = append(ms, jsonread.M(k, r.genValue(2)))
		}
	}
	c.M = ms
	return c
}

// patchFor makes a merge patch related to doc: some members nulled, changed, recursed into, added
func (r *recorder) patchFor(doc *jsonread.Value, depth int) *jsonread.Value {
	if doc.T != "obj" || depth <= 0 || r.rnd.Intn(8) == 0 {
		return r.genValue(2)
	}
	p := jsonread.Obj()
	for _, m := range doc.M {
		switch r.rnd.Intn(5) {
		case 0:
			p.M = append(p.M, jsonread.Member{K: m.K, V: jsonread.Null()})
		case 1:
			p.M = append(p.M, jsonread.Member{K: m.K, V: r.patchFor(m.V, depth-1)})
		case 2:
			p.M = append(p.M, jsonread.Member{K: m.K, V: r.genValue(2)})
		}
	}
	for i := r.rnd.Intn(3); i > 0; i-- {
		k := r.pick(keyPool)
		dup := false
		for _, m := range p.M {
			if string(m.K) == k {
				dup = true
			}
		}
		if !dup {
			p.M = append(p.M, jsonread.M(k, r.genValue(2)))
		}
	}
	r.rnd.Shuffle(len(p.M), func(i, j int) { p.M[i], p.M[j] = p.M[j], p.M[i] })
	return p
}

func (r *recorder) spelling() jsonread.Spelling {
	if r.rnd.Intn(2) == 0 {
		return jsonread.Canonical
	}
	return jsonread.Spelling{Rnd: rand.New(rand.NewSource(r.rnd.Int63())), WsOnly: lib.Dialect == "v4"}
}

func (r *recorder) result(e ev, out []byte, err error, pan string) {
	e["ok"], e["out"], e["panic"], e["malformed"] = false, jsonread.Null().Wire(), pan != "", false
	if pan != "" {
		r.panics++
		return
	}
	if err != nil {
		return
	}
	v, perr := jsonread.Parse(out)
	if perr != nil {
		e["malformed"] = true
		return
	}
	e["ok"], e["out"] = true, v.Wire()
}

func (r *recorder) mergeTrace() {
	var doc *jsonread.Value
	if r.rnd.Intn(5) == 0 {
		doc = r.genValue(3)
		if doc.T == "null" {
			doc = jsonread.Obj()
		}
	} else {
		doc = r.genObject(4)
	}
	patch := r.patchFor(doc, 4)
	if lib.Dialect == "v4" && patch.T != "obj" && patch.T != "arr" {
		patch = jsonread.Obj()
	}
	sp := r.spelling()
	r.execMerge(sp.RenderDoc(doc), sp.RenderDoc(patch), doc, patch)
}

func (r *recorder) execMerge(dt, pt []byte, doc, patch *jsonread.Value) {
	first := r.line + 1
	out, err, pan := guarded2(lib.MergePatch, dt, pt)
	e := ev{"ev": "merge", "doc": doc.Wire(), "patch": patch.Wire(), "verbatim": err == nil && pan == "" && string(out) == string(pt)}
	r.result(e, out, err, pan)
	r.emit(e)
	r.index = append(r.index, map[string]interface{}{"first": first, "last": r.line, "fam": "merge", "doc_text": string(dt), "patch_text": string(pt)})
}

func (r *recorder) createTrace() {
	if r.rnd.Intn(5) == 0 {
		// array roots: the elements are diffed pair by pair, each pair on its own
		var as, bs []*jsonread.Value
		for i, n := 0, 1+r.rnd.Intn(3); i < n; i++ {
			x := r.genObject(2)
			y := r.mutate(x, 2)
			if y.T != "obj" {
				y = r.genObject(1)
			}
			as, bs = append(as, x), append(bs, y)
		}
		a, b := jsonread.Arr(as...), jsonread.Arr(bs...)
		sp := r.spelling()
		r.execCreate(sp.RenderDoc(a), sp.RenderDoc(b), a, b)
		return
	}
	a := r.genObject(4)
	b := r.mutate(a, 4)
	if b.T != "obj" {
		b = r.genObject(2)
	}
	sp := r.spelling()
	r.execCreate(sp.RenderDoc(a), sp.RenderDoc(b), a, b)
}

func (r *recorder) execCreate(at, bt []byte, a, b *jsonread.Value) {
	first := r.line + 1
	out, err, pan := guarded2(lib.CreateMergePatch, at, bt)
	e := ev{"ev": "create", "a": a.Wire(), "b": b.Wire()}
	r.result(e, out, err, pan)
	// and the library's own MergePatch(A, P)
	e["applied_ok"], e["applied"] = false, jsonread.Null().Wire()
	if e["ok"].(bool) {
		res, merr, mpan := guarded2(lib.MergePatch, at, out)
		if mpan != "" {
			e["panic"] = true
		} else if merr == nil {
			if v, perr := jsonread.Parse(res); perr == nil {
				e["applied_ok"], e["applied"] = true, v.Wire()
			}
		}
	}
	r.emit(e)
	r.index = append(r.index, map[string]interface{}{"first": first, "last": r.line, "fam": "create", "a_text": string(at), "b_text": string(bt)})
}

// compatible: wherever p2 holds an object, p1 holds an object or nothing at that path
func compatible(p1, p2 *jsonread.Value) bool {
	if p2.T != "obj" {
		return true
	}
	if p1.T != "obj" {
		return false
	}
	for _, m := range p2.M {
		if m.V.T != "obj" {
			continue
		}
		for _, n := range p1.M {
			if string(n.K) == string(m.K) && !(n.V.T == "obj" && compatible(n.V, m.V)) {
				return false
			}
		}
	}
	return true
}

func (r *recorder) composeTrace() {
	base := r.genObject(3)
	p1 := r.patchFor(base, 3)
	if p1.T != "obj" {
		p1 = jsonread.Obj()
	}
	p2 := r.patchFor(p1, 3)
	if r.rnd.Intn(2) == 0 {
		p2 = r.patchFor(base, 3)
	}
	if lib.Dialect == "v4" && p2.T != "obj" && p2.T != "arr" {
		p2 = jsonread.Obj()
	}
	if !compatible(p1, p2) { // generator-side filter only: the specification decides Compatible again
		p2 = jsonread.Obj(jsonread.M("zz", jsonread.Null()))
	}
	sp := r.spelling()
	r.execCompose(sp.RenderDoc(p1), sp.RenderDoc(p2), p1, p2, []*jsonread.Value{base, r.mutate(base, 3), jsonread.Obj(), r.genObject(2)})
}

func (r *recorder) execCompose(t1, t2 []byte, p1, p2 *jsonread.Value, lawDocs []*jsonread.Value) {
	first := r.line + 1
	out, err, pan := guarded2(lib.MergeMergePatches, t1, t2)
	e := ev{"ev": "compose", "p1": p1.Wire(), "p2": p2.Wire()}
	r.result(e, out, err, pan)
	// documents on which the law is observed, with the real sequential and combined results
	var docs, seqs, combs []interface{}
	var docTexts []string
	allok := e["ok"].(bool)
	for _, d := range lawDocs {
		dt := jsonread.Canonical.Render(d)
		docTexts = append(docTexts, string(dt))
		s1, e1, pn1 := guarded2(lib.MergePatch, dt, t1)
		if e1 != nil || pn1 != "" {
			allok = false
			break
		}
		s2, e2, pn2 := guarded2(lib.MergePatch, s1, t2)
		var c1 []byte
		var e3 error
		var pn3 string
		if e["ok"].(bool) {
			c1, e3, pn3 = guarded2(lib.MergePatch, dt, out)
		}
		if e2 != nil || pn2 != "" || e3 != nil || pn3 != "" || !e["ok"].(bool) {
			allok = false
			break
		}
		sv, perr1 := jsonread.Parse(s2)
		cv, perr2 := jsonread.Parse(c1)
		if perr1 != nil || perr2 != nil {
			allok = false
			break
		}
		docs, seqs, combs = append(docs, d.Wire()), append(seqs, sv.Wire()), append(combs, cv.Wire())
	}
	if docs == nil {
		docs, seqs, combs = []interface{}{}, []interface{}{}, []interface{}{}
	}
	e["docs"], e["seq"], e["comb"], e["allok"] = docs, seqs, combs, allok
	r.emit(e)
	r.index = append(r.index, map[string]interface{}{"first": first, "last": r.line, "fam": "compose", "p1_text": string(t1), "p2_text": string(t2), "doc_texts": docTexts})
}

func (r *recorder) equalTrace() {
	a := r.genValue(3)
	b := a.Clone()
	switch r.rnd.Intn(4) {
	case 0:
		b = r.mutate(a, 3)
	case 1:
		b = r.genValue(2)
	case 2:
		if b.T == "obj" && len(b.M) > 1 {
			b.M[0], b.M[len(b.M)-1] = b.M[len(b.M)-1], b.M[0]
		}
	}
	if lib.Dialect == "v4" {
		if a.T != "obj" && a.T != "arr" {
			a = jsonread.Arr(a)
		}
		if b.T != "obj" && b.T != "arr" {
			b = jsonread.Arr(b)
		}
	}
	sa, sb := r.spelling(), r.spelling()
	r.execEqual(sa.RenderDoc(a), sb.RenderDoc(b), a, b)
}

func (r *recorder) execEqual(at, bt []byte, a, b *jsonread.Value) {
	first := r.line + 1
	var got bool
	pan := ""
	func() {
		defer func() {
			if x := recover(); x != nil {
				pan = fmt.Sprint(x)
			}
		}()
		got = lib.Equal(at, bt)
	}()
	if pan != "" {
		r.panics++
	}
	r.emit(ev{"ev": "equal", "a": a.Wire(), "b": b.Wire(), "got": got, "panic": pan != ""})
	r.index = append(r.index, map[string]interface{}{"first": first, "last": r.line, "fam": "equal", "a_text": string(at), "b_text": string(bt)})
}

// replayCase re-executes the inputs of one recorded trace (bin/check <id> --replay <file>).
func (r *recorder) replayCase(path string) error {
	b, err := os.ReadFile(path)
	if err != nil {
		return err
	}
	var f struct {
		Case struct {
			Fam       string   `json:"fam"`
			DocText   string   `json:"doc_text"`
			PatchText string   `json:"patch_text"`
			Opts      lib.Opts `json:"opts"`
			AText     string   `json:"a_text"`
			BText     string   `json:"b_text"`
			P1Text    string   `json:"p1_text"`
			P2Text    string   `json:"p2_text"`
			DocTexts  []string `json:"doc_texts"`
		} `json:"case"`
	}
	if err := json.Unmarshal(b, &f); err != nil {
		return err
	}
	c := f.Case
	parse := func(t string) *jsonread.Value {
		v, perr := jsonread.Parse([]byte(t))
		if perr != nil && err == nil {
			err = fmt.Errorf("case text %q: %v", t, perr)
		}
		return v
	}
	switch c.Fam {
	case "patch":
		doc, pv := parse(c.DocText), parse(c.PatchText)
		if err != nil {
			return err
		}
		str := func(o *jsonread.Value, k string) string {
			for _, m := range o.M {
				if string(m.K) == k {
					return string(m.V.Cp)
				}
			}
			return ""
		}
		r.execPatch([]byte(c.DocText), doc, c.Opts, len(pv.E), func(cur *jsonread.Value, i int) (genOp, string) {
			o := pv.E[i]
			g := genOp{Op: str(o, "op"), Path: str(o, "path"), From: str(o, "from"), Value: jsonread.Null()}
			for _, m := range o.M {
				if string(m.K) == "value" {
					g.Value = m.V
				}
			}
			return g, string(jsonread.Canonical.Render(o))
		})
	case "merge":
		d, p := parse(c.DocText), parse(c.PatchText)
		if err != nil {
			return err
		}
		r.execMerge([]byte(c.DocText), []byte(c.PatchText), d, p)
	case "create":
		a, b := parse(c.AText), parse(c.BText)
		if err != nil {
			return err
		}
		r.execCreate([]byte(c.AText), []byte(c.BText), a, b)
	case "compose":
		p1, p2 := parse(c.P1Text), parse(c.P2Text)
		var docs []*jsonread.Value
		for _, t := range c.DocTexts {
			docs = append(docs, parse(t))
		}
		if err != nil {
			return err
		}
		r.execCompose([]byte(c.P1Text), []byte(c.P2Text), p1, p2, docs)
	case "equal":
		a, b := parse(c.AText), parse(c.BText)
		if err != nil {
			return err
		}
		r.execEqual([]byte(c.AText), []byte(c.BText), a, b)
	default:
		if f, ok := extraReplays[c.Fam]; ok {
			var raw struct {
				Case json.RawMessage `json:"case"`
			}
			if err := json.Unmarshal(b, &raw); err != nil {
				return err
			}
			return f(r, raw.Case)
		}
		return fmt.Errorf("unknown trace family %q", c.Fam)
	}
	return nil
}

// families that exist only for the v5 module (they need the staged codec)
var extraFamilies = map[string]func(*recorder){}
var extraReplays = map[string]func(*recorder, json.RawMessage) error{}

func main() {
	fam := flag.String("fam", "patch", "patch | merge | create | compose | equal | mix")
	n := flag.Int("n", 100, "number of traces")
	seed := flag.Int64("seed", 1, "VERIF_SEED")
	out := flag.String("out", "trace.ndjson", "ndjson trace file")
	index := flag.String("index", "trace.index.json", "index of the traces (inputs, line ranges)")
	maxOps := flag.Int("maxops", 10, "longest patch")
	plain := flag.Bool("plain", false, "plain member names only")
	caseFile := flag.String("case", "", "re-execute the inputs of this replay file instead of generating")
	withBytes := flag.Bool("bytes", false, "record the raw output bytes of successful Apply calls")
	flag.Parse()
	f, err := os.Create(*out)
	if err != nil {
		fmt.Fprintln(os.Stderr, "record:", err)
		os.Exit(2)
	}
	r := &recorder{w: bufio.NewWriterSize(f, 1<<20), rnd: rand.New(rand.NewSource(*seed*7919 + 17)), rich: !*plain, withBytes: *withBytes}
	if *caseFile != "" {
		if err := r.replayCase(*caseFile); err != nil {
			fmt.Fprintln(os.Stderr, "record:", err)
			os.Exit(2)
		}
		*n = 0
	}
	for i := 0; i < *n; i++ {
		k := *fam
		if k == "mix" {
			k = []string{"merge", "create", "compose", "equal"}[i%4]
		}
		switch k {
		case "patch":
			r.patchTrace(*maxOps)
		case "merge":
			r.mergeTrace()
		case "create":
			r.createTrace()
		case "compose":
			r.composeTrace()
		case "equal":
			r.equalTrace()
		default:
			if f, ok := extraFamilies[k]; ok {
				f(r)
				continue
			}
			fmt.Fprintln(os.Stderr, "record: unknown family", k)
			os.Exit(2)
		}
	}
	r.w.Flush()
	f.Close()
	b, _ := json.Marshal(map[string]interface{}{"traces": r.index, "lines": r.line, "panics": r.panics, "package": lib.Dialect})
	if err := os.WriteFile(*index, b, 0o644); err != nil {
		fmt.Fprintln(os.Stderr, "record:", err)
		os.Exit(2)
	}
	fmt.Printf("RECORDED traces=%d events=%d panics=%d\n", len(r.index), r.line, r.panics)
}
