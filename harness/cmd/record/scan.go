//go:build !v4

package main

import (
	"bytes"
	"encoding/json"
	"fmt"

	codec "github.com/evanphx/json-patch/v5/verifcodec"

	"verifharness/jsonread"
)

// scanTrace records what the embedded codec does with one text: a rendered random value in a random
// spelling, half of the time damaged by a byte-level edit (truncation, deletion, insertion, duplication,
// a flipped byte), so that near-misses of well-formed texts are dense.
func (r *recorder) scanTrace() {
	v := r.genValue(4)
	sp := r.spelling()
	text := sp.RenderDoc(v)
	if r.rnd.Intn(2) == 0 && len(text) > 0 {
		i := r.rnd.Intn(len(text))
		switch r.rnd.Intn(10) {
		case 8, 9:
			// escape near-misses: one hex digit of a \u escape replaced by a byte that bit tricks mistake for one
			// (c|0x20 and c&^0x20 images of digits and letters, the neighbours of the digit and letter ranges), or the
			// character after a backslash with its case bit flipped
			var cands []int
			for k := 0; k+1 < len(text); k++ {
				if text[k] == '\\' {
					cands = append(cands, k)
					k++
				}
			}
			if len(cands) > 0 {
				k := cands[r.rnd.Intn(len(cands))]
				text = append([]byte{}, text...)
				if text[k+1] == 'u' && k+5 < len(text) {
					h := k + 2 + r.rnd.Intn(4)
					switch r.rnd.Intn(4) {
					case 0:
						text[h] ^= 0x20
					case 1:
						text[h] &^= 0x20
					case 2:
						text[h] ^= 0x40
					default:
						near := []byte("gG@`:/")
						text[h] = near[r.rnd.Intn(len(near))]
					}
				} else {
					text[k+1] ^= 0x20
				}
			}
		case 6, 7:
			// structural near-misses: a comma before a closing bracket, a doubled comma, a colon for a comma, a dropped colon
			var cands []int
			for k, c := range text {
				if c == '}' || c == ']' || c == ',' || c == ':' {
					cands = append(cands, k)
				}
			}
			if len(cands) > 0 {
				k := cands[r.rnd.Intn(len(cands))]
				switch text[k] {
				case '}', ']':
					text = append(append(append([]byte{}, text[:k]...), ','), text[k:]...)
				case ',':
					if r.rnd.Intn(2) == 0 {
						text = append(append(append([]byte{}, text[:k]...), ','), text[k:]...)
					} else {
						text = append([]byte{}, text...)
						text[k] = ':'
					}
				case ':':
					text = append(append([]byte{}, text[:k]...), text[k+1:]...)
				}
			}
		case 0:
			text = text[:i]
		case 1:
			text = append(append([]byte{}, text[:i]...), text[i+1:]...)
		case 2:
			ins := []byte(`{}[]:,"\/-+.0159eEutrnalsfb x` + "\x00\x1f\t\n")
			text = append(append(append([]byte{}, text[:i]...), ins[r.rnd.Intn(len(ins))]), text[i:]...)
		case 3:
			j := i + r.rnd.Intn(len(text)-i)
			text = append(append(append([]byte{}, text[:j]...), text[i:j]...), text[j:]...)
		case 4:
			text = append([]byte{}, text...)
			text[i] ^= byte(1 << uint(r.rnd.Intn(7)))
		default:
			text = append(append([]byte{}, text...), text[i:]...)
		}
	}
	r.execScan(text)
}

func bw(b []byte) []int { return jsonread.BytesWire(b) }

func (r *recorder) execScan(text []byte) {
	first := r.line + 1
	e := ev{"ev": "scan", "text": bw(text), "panic": false, "valid": false, "unmarshal_ok": false, "compact_ok": false, "compact": []int{},
		"indent_ok": false, "indent": []int{}, "htmlesc": []int{}, "escaped": []int{}, "roundtrip_ok": false,
		"roundtrip": jsonread.Null().Wire(), "keys": []interface{}{}}
	func() {
		defer func() {
			if x := recover(); x != nil {
				e["panic"] = true
				r.panics++
				_ = fmt.Sprint(x)
			}
		}()
		e["valid"] = codec.Valid(text)
		var x interface{}
		e["unmarshal_ok"] = codec.Unmarshal(text, &x) == nil
		var cb, ib, hb bytes.Buffer
		if codec.Compact(&cb, text) == nil {
			e["compact_ok"], e["compact"] = true, bw(cb.Bytes())
		}
		if codec.Indent(&ib, text, "", "  ") == nil {
			e["indent_ok"], e["indent"] = true, bw(ib.Bytes())
		}
		codec.HTMLEscape(&hb, text)
		e["htmlesc"] = bw(hb.Bytes())
		if e["valid"].(bool) {
			if esc, err := codec.MarshalEscaped(codec.RawMessage(text), true); err == nil {
				e["escaped"] = bw(esc)
			}
			if out, err := codec.MarshalEscaped(x, false); err == nil {
				if rv, perr := jsonread.Parse(out); perr == nil {
					e["roundtrip_ok"], e["roundtrip"] = true, rv.Wire()
				}
			}
			m := map[string]interface{}{}
			if keys, err := codec.UnmarshalWithKeys(text, &m); err == nil {
				ks := []interface{}{}
				for _, k := range keys {
					ks = append(ks, jsonread.CpWire([]rune(k)))
				}
				e["keys"] = ks
			}
		}
	}()
	r.emit(e)
	r.index = append(r.index, map[string]interface{}{"first": first, "last": r.line, "fam": "scan", "text": string(text), "text_bytes": bw(text)})
}

func init() {
	extraFamilies["scan"] = (*recorder).scanTrace
	extraReplays["scan"] = func(r *recorder, raw json.RawMessage) error {
		var c struct {
			TextBytes []int `json:"text_bytes"`
		}
		if err := json.Unmarshal(raw, &c); err != nil {
			return err
		}
		b := make([]byte, len(c.TextBytes))
		for i, x := range c.TextBytes {
			b[i] = byte(x)
		}
		r.execScan(b)
		return nil
	}
}
