// Package gomodel converts between the model of Go types and values used by GoEnc.tla / GoDec.tla (JSON records such as
// {"g":"tslice","nil":true,"e":[],"z":{...}}) and real Go types and values built with reflect.  A TYPE is described by
// its zero value.  The package knows nothing about the codec under test.
package gomodel

import (
	"bytes"
	"fmt"
	"reflect"
	"sort"
	"strconv"
)

// Types with marshalling methods (GoEnc.tla: marsh, textm, redir, trust).
type VMarsh struct {
	Text string
	Fail bool
}

func (m VMarsh) MarshalJSON() ([]byte, error) {
	if m.Fail {
		return nil, fmt.Errorf("VMarsh fails")
	}
	return []byte(m.Text), nil
}

type VText struct{ Text string }

func (t VText) MarshalText() ([]byte, error) { return []byte(t.Text), nil }

type VRedir struct{ V interface{} }

func (r VRedir) RedirectMarshalJSON() (interface{}, error) { return r.V, nil }

type VTrust struct{ B string }

func (t VTrust) TrustMarshalJSON(buf *bytes.Buffer) error {
	buf.WriteString(t.B)
	return nil
}

// NumberType is the codec's Number type (a string type); set by the program that links the codec.
var NumberType = reflect.TypeOf("")

type M = map[string]interface{}

var ifaceType = reflect.TypeOf((*interface{})(nil)).Elem()

func Bytes(b []byte) []interface{} {
	a := make([]interface{}, len(b))
	for i, c := range b {
		a[i] = float64(c)
	}
	return a
}

func unbytes(x interface{}) []byte {
	a, _ := x.([]interface{})
	b := make([]byte, len(a))
	for i, c := range a {
		switch n := c.(type) {
		case float64:
			b[i] = byte(n)
		case int:
			b[i] = byte(n)
		}
	}
	return b
}

// zero values (= types)
func Iface() M     { return M{"g": "nil"} }
func Bool() M      { return M{"g": "bool", "b": false} }
func Int() M       { return M{"g": "int", "i": float64(0)} }
func Float() M     { return M{"g": "float", "lit": Bytes([]byte("0"))} }
func Str() M       { return M{"g": "str", "bytes": []interface{}{}} }
func ByteSlice() M { return M{"g": "bytes", "nil": true, "b": []interface{}{}} }
func Slice() M     { return M{"g": "slice", "nil": true, "e": []interface{}{}} }
func Map() M       { return M{"g": "map", "nil": true, "m": []interface{}{}} }
func TSlice(z M) M { return M{"g": "tslice", "nil": true, "e": []interface{}{}, "z": z} }
func TMap(z M) M   { return M{"g": "tmap", "nil": true, "m": []interface{}{}, "z": z} }
func Ptr(z M) M    { return M{"g": "ptr", "nil": true, "v": z} }
func Struct(f ...M) M {
	fs := make([]interface{}, len(f))
	for i, x := range f {
		fs[i] = x
	}
	return M{"g": "struct", "f": fs}
}

// Field describes one struct field; tname == "" means no name in the tag.
func Field(name string, z M, tname string, str, dash, anon bool) M {
	return M{"name": Bytes([]byte(name)), "tagged": tname != "" || str || dash, "tname": Bytes([]byte(tname)), "omitempty": false,
		"str": str, "dash": dash, "anon": anon, "v": z}
}

// TypeOf builds the Go type whose zero value the model describes.
func TypeOf(g M) (reflect.Type, error) {
	switch g["g"] {
	case "nil":
		return ifaceType, nil
	case "bool":
		return reflect.TypeOf(false), nil
	case "int":
		return reflect.TypeOf(int64(0)), nil
	case "float":
		return reflect.TypeOf(float64(0)), nil
	case "str":
		return reflect.TypeOf(""), nil
	case "bytes":
		return reflect.TypeOf([]byte(nil)), nil
	case "slice":
		return reflect.TypeOf([]interface{}(nil)), nil
	case "map":
		return reflect.TypeOf(map[string]interface{}(nil)), nil
	case "tslice", "tmap":
		et, err := TypeOf(g["z"].(M))
		if err != nil {
			return nil, err
		}
		if g["g"] == "tslice" {
			return reflect.SliceOf(et), nil
		}
		return reflect.MapOf(reflect.TypeOf(""), et), nil
	case "ptr":
		et, err := TypeOf(g["v"].(M))
		if err != nil {
			return nil, err
		}
		return reflect.PointerTo(et), nil
	case "number":
		return NumberType, nil
	case "marsh":
		return reflect.TypeOf(VMarsh{}), nil
	case "textm":
		return reflect.TypeOf(VText{}), nil
	case "redir":
		return reflect.TypeOf(VRedir{}), nil
	case "trust":
		return reflect.TypeOf(VTrust{}), nil
	case "struct":
		var fields []reflect.StructField
		for _, e := range g["f"].([]interface{}) {
			f := e.(M)
			ft, err := TypeOf(f["v"].(M))
			if err != nil {
				return nil, err
			}
			name := string(unbytes(f["name"]))
			sf := reflect.StructField{Name: name, Type: ft, Anonymous: f["anon"].(bool)}
			if name[0] >= 'a' && name[0] <= 'z' {
				sf.PkgPath = "verifharness/generated"
			}
			if f["tagged"].(bool) {
				tag := string(unbytes(f["tname"]))
				if f["dash"].(bool) {
					tag = "-"
				}
				if om, _ := f["omitempty"].(bool); om && !f["dash"].(bool) {
					tag += ",omitempty"
				}
				if f["str"].(bool) && !f["dash"].(bool) {
					tag += ",string"
				}
				sf.Tag = reflect.StructTag(`json:"` + tag + `"`)
			}
			fields = append(fields, sf)
		}
		return reflect.StructOf(fields), nil
	}
	return nil, fmt.Errorf("unknown model kind %v", g["g"])
}

// ValueModel describes the Go value v, whose static type is described by t, in the model.
func ValueModel(v reflect.Value, t M) M {
	switch t["g"] {
	case "nil":
		if v.Kind() == reflect.Interface {
			if v.IsNil() {
				return M{"g": "nil"}
			}
			v = v.Elem()
		}
		return dynamic(v)
	case "bool":
		return M{"g": "bool", "b": v.Bool()}
	case "int":
		return M{"g": "int", "i": float64(v.Int())}
	case "float":
		return M{"g": "float", "lit": Bytes([]byte(strconv.FormatFloat(v.Float(), 'g', -1, 64)))}
	case "str":
		return M{"g": "str", "bytes": Bytes([]byte(v.String()))}
	case "number":
		return M{"g": "number", "lit": Bytes([]byte(v.String()))}
	case "bytes":
		return M{"g": "bytes", "nil": v.IsNil(), "b": Bytes(v.Bytes())}
	case "slice", "tslice":
		et := M{"g": "nil"}
		if t["g"] == "tslice" {
			et = t["z"].(M)
		}
		es := []interface{}{}
		for i := 0; i < v.Len(); i++ {
			es = append(es, ValueModel(v.Index(i), et))
		}
		out := M{"g": t["g"], "nil": v.IsNil(), "e": es}
		if t["g"] == "tslice" {
			out["z"] = et
		}
		return out
	case "map", "tmap":
		et := M{"g": "nil"}
		if t["g"] == "tmap" {
			et = t["z"].(M)
		}
		var ks []string
		for _, k := range v.MapKeys() {
			ks = append(ks, k.String())
		}
		sort.Strings(ks)
		ms := []interface{}{}
		for _, k := range ks {
			ms = append(ms, M{"k": Bytes([]byte(k)), "v": ValueModel(v.MapIndex(reflect.ValueOf(k)), et)})
		}
		out := M{"g": t["g"], "nil": v.IsNil(), "m": ms}
		if t["g"] == "tmap" {
			out["z"] = et
		}
		return out
	case "ptr":
		if v.IsNil() {
			return M{"g": "ptr", "nil": true, "v": t["v"]}
		}
		return M{"g": "ptr", "nil": false, "v": ValueModel(v.Elem(), t["v"].(M))}
	case "struct":
		fs := []interface{}{}
		for i, e := range t["f"].([]interface{}) {
			f := e.(M)
			g := M{}
			for k, x := range f {
				g[k] = x
			}
			g["v"] = ValueModel(v.Field(i), f["v"].(M))
			fs = append(fs, g)
		}
		return M{"g": "struct", "f": fs}
	}
	return M{"g": "unknown"}
}

// dynamic describes a value held by an interface{} after decoding: bool, float64, json.Number (any string type named
// Number), string, []interface{}, map[string]interface{}.
func dynamic(v reflect.Value) M {
	switch v.Kind() {
	case reflect.Bool:
		return M{"g": "bool", "b": v.Bool()}
	case reflect.Float64:
		return M{"g": "float", "lit": Bytes([]byte(strconv.FormatFloat(v.Float(), 'g', -1, 64)))}
	case reflect.String:
		if v.Type().Name() == "Number" {
			return M{"g": "number", "lit": Bytes([]byte(v.String()))}
		}
		return M{"g": "str", "bytes": Bytes([]byte(v.String()))}
	case reflect.Slice:
		return ValueModel(v, Slice())
	case reflect.Map:
		return ValueModel(v, Map())
	case reflect.Interface:
		if v.IsNil() {
			return M{"g": "nil"}
		}
		return dynamic(v.Elem())
	}
	return M{"g": "unknown:" + v.Kind().String()}
}

// Build constructs the Go value the model g describes; its static type is TypeOf(t) where t is the model of the type
// (for a value held by an interface{}, t is Iface() and the dynamic type follows from g).
func Build(g M, t M) (reflect.Value, error) {
	rt, err := TypeOf(t)
	if err != nil {
		return reflect.Value{}, err
	}
	out := reflect.New(rt).Elem()
	if t["g"] == "nil" {
		if g["g"] == "nil" {
			return out, nil
		}
		if g["g"] == "iface" { // the explicit wrapper of a non-nil interface value
			g = g["v"].(M)
		}
		dv, err := Build(g, typeOfValue(g))
		if err != nil {
			return dv, err
		}
		out.Set(dv)
		return out, nil
	}
	switch g["g"] {
	case "bool":
		out.SetBool(g["b"].(bool))
	case "int":
		out.SetInt(int64(g["i"].(float64)))
	case "float":
		f, err := strconv.ParseFloat(string(unbytes(g["lit"])), 64)
		if err != nil {
			return out, err
		}
		out.SetFloat(f)
	case "str":
		out.SetString(string(unbytes(g["bytes"])))
	case "number":
		out.SetString(string(unbytes(g["lit"])))
	case "bytes":
		if !g["nil"].(bool) {
			out.SetBytes(append([]byte{}, unbytes(g["b"])...))
		}
	case "marsh":
		out.Set(reflect.ValueOf(VMarsh{Text: string(unbytes(g["text"])), Fail: g["fail"].(bool)}))
	case "textm":
		out.Set(reflect.ValueOf(VText{Text: string(unbytes(g["text"]))}))
	case "trust":
		out.Set(reflect.ValueOf(VTrust{B: string(unbytes(g["b"]))}))
	case "redir":
		iv, err := Build(g["v"].(M), Iface())
		if err != nil {
			return out, err
		}
		var x interface{}
		if !iv.IsNil() {
			x = iv.Interface()
		}
		out.Set(reflect.ValueOf(VRedir{V: x}))
	case "slice", "tslice":
		if g["nil"].(bool) {
			return out, nil
		}
		et := Iface()
		if g["g"] == "tslice" {
			et = t["z"].(M)
		}
		sl := reflect.MakeSlice(rt, 0, 4)
		for _, e := range g["e"].([]interface{}) {
			v, err := Build(e.(M), et)
			if err != nil {
				return out, err
			}
			sl = reflect.Append(sl, v)
		}
		out.Set(sl)
	case "map", "tmap":
		if g["nil"].(bool) {
			return out, nil
		}
		et := Iface()
		if g["g"] == "tmap" {
			et = t["z"].(M)
		}
		m := reflect.MakeMap(rt)
		for _, e := range g["m"].([]interface{}) {
			kv := e.(M)
			v, err := Build(kv["v"].(M), et)
			if err != nil {
				return out, err
			}
			m.SetMapIndex(reflect.ValueOf(string(unbytes(kv["k"]))), v)
		}
		out.Set(m)
	case "ptr":
		if g["nil"].(bool) {
			return out, nil
		}
		v, err := Build(g["v"].(M), t["v"].(M))
		if err != nil {
			return out, err
		}
		p := reflect.New(rt.Elem())
		p.Elem().Set(v)
		out.Set(p)
	case "struct":
		tf := t["f"].([]interface{})
		for i, e := range g["f"].([]interface{}) {
			if !out.Field(i).CanSet() {
				continue
			}
			v, err := Build(e.(M)["v"].(M), tf[i].(M)["v"].(M))
			if err != nil {
				return out, err
			}
			out.Field(i).Set(v)
		}
	default:
		return out, fmt.Errorf("cannot build %v", g["g"])
	}
	return out, nil
}

// typeOfValue: the model of the static type of a value model (its zero value)
func typeOfValue(g M) M {
	switch g["g"] {
	case "nil", "iface":
		return Iface()
	case "bool":
		return Bool()
	case "int":
		return Int()
	case "float":
		return Float()
	case "str":
		return Str()
	case "number":
		return M{"g": "number", "lit": []interface{}{}}
	case "bytes":
		return ByteSlice()
	case "slice":
		return Slice()
	case "map":
		return Map()
	case "tslice":
		return TSlice(g["z"].(M))
	case "tmap":
		return TMap(g["z"].(M))
	case "ptr":
		return Ptr(typeOfValue(g["v"].(M)))
	case "marsh":
		return M{"g": "marsh", "text": []interface{}{}, "fail": false}
	case "textm":
		return M{"g": "textm", "text": []interface{}{}}
	case "redir":
		return M{"g": "redir", "v": Iface()}
	case "trust":
		return M{"g": "trust", "b": []interface{}{}}
	case "struct":
		fs := []interface{}{}
		for _, e := range g["f"].([]interface{}) {
			f := e.(M)
			c := M{}
			for k, x := range f {
				c[k] = x
			}
			c["v"] = typeOfValue(f["v"].(M))
			fs = append(fs, c)
		}
		return M{"g": "struct", "f": fs}
	}
	return Iface()
}

// TypeOfValue is typeOfValue for callers outside the package.
func TypeOfValue(g M) M { return typeOfValue(g) }
