package jsonread

import (
	"encoding/json"
	"fmt"
	"math/rand"
	"strconv"
	"strings"
	"unicode/utf8"
)

// Spelling controls how Render writes a value.
type Spelling struct {
	// Rnd == nil: the canonical spelling, which is spec/JsonEnc.tla's Enc(v, FALSE):
	// compact, only the mandatory escapes, U+2028/9 escaped, everything else raw UTF-8.
	// Rnd != nil: a random re-spelling of the same value: insignificant white space,
	// \uXXXX escapes (incl. surrogate pairs), \/ and the short escapes.
	Rnd *rand.Rand
	// WsOnly: with Rnd != nil, only insignificant white space is varied; strings are spelled
	// canonically (properties that measure output sizes, C12).
	WsOnly bool
}

const hexdigits = "0123456789abcdef"

func u4(b *strings.Builder, c rune) {
	b.WriteString(`\u`)
	b.WriteByte(hexdigits[(c>>12)&15])
	b.WriteByte(hexdigits[(c>>8)&15])
	b.WriteByte(hexdigits[(c>>4)&15])
	b.WriteByte(hexdigits[c&15])
}

func uEsc(b *strings.Builder, c rune, upper bool) {
	var t strings.Builder
	if c >= 0x10000 {
		c -= 0x10000
		u4(&t, 0xD800+(c>>10))
		u4(&t, 0xDC00+(c&0x3ff))
	} else {
		u4(&t, c)
	}
	s := t.String()
	if upper {
		s = `\u` + strings.ToUpper(s[2:6]) + s[6:]
	}
	b.WriteString(s)
}

// WriteString writes a JSON string token for the code points cp.
func (sp Spelling) WriteString(b *strings.Builder, cp []rune) {
	b.WriteByte('"')
	for _, c := range cp {
		if sp.Rnd != nil && !sp.WsOnly && c != 0xFFFD && sp.Rnd.Intn(5) == 0 {
			// a random alternative spelling
			switch {
			case c == '/' && sp.Rnd.Intn(2) == 0:
				b.WriteString(`\/`)
			case c == 8 && sp.Rnd.Intn(2) == 0:
				b.WriteString(`\b`)
			case c == 12 && sp.Rnd.Intn(2) == 0:
				b.WriteString(`\f`)
			default:
				uEsc(b, c, sp.Rnd.Intn(2) == 0)
			}
			continue
		}
		switch {
		case c == '"':
			b.WriteString(`\"`)
		case c == '\\':
			b.WriteString(`\\`)
		case c == '\n':
			b.WriteString(`\n`)
		case c == '\r':
			b.WriteString(`\r`)
		case c == '\t':
			b.WriteString(`\t`)
		case c < 0x20:
			u4(b, c)
		case c == 0x2028 || c == 0x2029:
			u4(b, c)
		case c >= 0xD800 && c < 0xE000:
			// cannot be written raw; never part of an abstract value (decoded as U+FFFD)
			u4(b, 0xFFFD)
		default:
			var buf [4]byte
			n := utf8.EncodeRune(buf[:], c)
			b.Write(buf[:n])
		}
	}
	b.WriteByte('"')
}

func (sp Spelling) ws(b *strings.Builder) {
	if sp.Rnd == nil {
		return
	}
	switch sp.Rnd.Intn(8) {
	case 0:
		b.WriteByte(' ')
	case 1:
		b.WriteString("\n\t")
	case 2:
		b.WriteString(" \r\n ")
	}
}

// Write writes v.
func (sp Spelling) Write(b *strings.Builder, v *Value) {
	switch v.T {
	case "null":
		b.WriteString("null")
	case "bool":
		if v.B {
			b.WriteString("true")
		} else {
			b.WriteString("false")
		}
	case "num":
		b.WriteString(v.Lit)
	case "str":
		sp.WriteString(b, v.Cp)
	case "arr":
		b.WriteByte('[')
		sp.ws(b)
		for i, e := range v.E {
			if i > 0 {
				b.WriteByte(',')
				sp.ws(b)
			}
			sp.Write(b, e)
			sp.ws(b)
		}
		b.WriteByte(']')
	case "obj":
		b.WriteByte('{')
		sp.ws(b)
		for i, m := range v.M {
			if i > 0 {
				b.WriteByte(',')
				sp.ws(b)
			}
			sp.WriteString(b, m.K)
			sp.ws(b)
			b.WriteByte(':')
			sp.ws(b)
			sp.Write(b, m.V)
			sp.ws(b)
		}
		b.WriteByte('}')
	default:
		panic("jsonread: bad value tag " + v.T)
	}
}

// Render returns v as JSON text in the given spelling.
func (sp Spelling) Render(v *Value) []byte {
	var b strings.Builder
	sp.Write(&b, v)
	return []byte(b.String())
}

// RenderDoc is Render plus (for a random spelling) white space around the text.
func (sp Spelling) RenderDoc(v *Value) []byte {
	var b strings.Builder
	sp.ws(&b)
	sp.Write(&b, v)
	sp.ws(&b)
	return []byte(b.String())
}

// Canonical is the canonical spelling.
var Canonical = Spelling{}

// ---------------------------------------------------------------------------
// TLA-JSON wire codec (DESIGN.md Appendix A.1).  encoding/json is used here only
// to read and write the wire records exchanged with TLC, never library input/output.
// ---------------------------------------------------------------------------

// Wire returns the TLA-JSON form of v as a Go value fit for json.Marshal.
func (v *Value) Wire() interface{} {
	switch v.T {
	case "null":
		return map[string]interface{}{"t": "null"}
	case "bool":
		return map[string]interface{}{"t": "bool", "b": v.B}
	case "num":
		return map[string]interface{}{"t": "num", "lit": CpWire([]rune(v.Lit))}
	case "str":
		return map[string]interface{}{"t": "str", "cp": CpWire(v.Cp)}
	case "arr":
		e := make([]interface{}, 0, len(v.E))
		for _, x := range v.E {
			e = append(e, x.Wire())
		}
		return map[string]interface{}{"t": "arr", "e": e}
	case "obj":
		m := make([]interface{}, 0, len(v.M))
		for _, x := range v.M {
			m = append(m, map[string]interface{}{"k": CpWire(x.K), "v": x.V.Wire()})
		}
		return map[string]interface{}{"t": "obj", "m": m}
	}
	panic("jsonread: bad value tag " + v.T)
}

// CpWire turns code points into the wire form (a JSON array of integers).
func CpWire(cp []rune) []int {
	out := make([]int, len(cp))
	for i, c := range cp {
		out[i] = int(c)
	}
	return out
}

// BytesWire turns bytes into a JSON array of integers.
func BytesWire(b []byte) []int {
	out := make([]int, len(b))
	for i, c := range b {
		out[i] = int(c)
	}
	return out
}

// FromWire decodes the TLA-JSON form.
func FromWire(raw json.RawMessage) (*Value, error) {
	var h struct {
		T   string            `json:"t"`
		B   bool              `json:"b"`
		Lit []int             `json:"lit"`
		Cp  []int             `json:"cp"`
		E   []json.RawMessage `json:"e"`
		M   []struct {
			K []int           `json:"k"`
			V json.RawMessage `json:"v"`
		} `json:"m"`
	}
	if err := json.Unmarshal(raw, &h); err != nil {
		return nil, err
	}
	switch h.T {
	case "null":
		return Null(), nil
	case "bool":
		return Bool(h.B), nil
	case "num":
		return Num(string(CpFromWire(h.Lit))), nil
	case "str":
		return StrCp(CpFromWire(h.Cp)), nil
	case "arr":
		v := &Value{T: "arr"}
		for _, e := range h.E {
			x, err := FromWire(e)
			if err != nil {
				return nil, err
			}
			v.E = append(v.E, x)
		}
		return v, nil
	case "obj":
		v := &Value{T: "obj"}
		for _, m := range h.M {
			x, err := FromWire(m.V)
			if err != nil {
				return nil, err
			}
			v.M = append(v.M, Member{K: CpFromWire(m.K), V: x})
		}
		return v, nil
	}
	return nil, fmt.Errorf("wire value with tag %q", h.T)
}

// CpFromWire is the inverse of CpWire.
func CpFromWire(a []int) []rune {
	out := make([]rune, len(a))
	for i, c := range a {
		out[i] = rune(c)
	}
	return out
}

// Quote renders code points as a Go-quoted string for messages.
func Quote(cp []rune) string { return strconv.Quote(string(cp)) }
