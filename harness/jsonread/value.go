// Package jsonread is the projection between real artefacts (JSON texts) and the
// abstract values of spec/JsonValue.tla.  It contains an independent, strict
// RFC 8259 recursive-descent reader that keeps member order, number literals and
// decoded string contents, a writer with controllable spelling, and the TLA-JSON
// wire codec (DESIGN.md Appendix A.1).  It shares no code with json-patch or its
// embedded codec and does not use encoding/json for reading documents.
package jsonread

import (
	"bytes"
	"fmt"
	"math/big"
	"sort"
	"strconv"
	"strings"
	"unicode/utf8"
)

// Value is an abstract JSON value.
type Value struct {
	T   string // "null" "bool" "num" "str" "arr" "obj"
	B   bool
	Lit string   // number literal
	Cp  []rune   // decoded string content
	E   []*Value // array elements
	M   []Member // object members in document order
	// span of the value in the text it was read from (Start inclusive, End exclusive)
	Start, End int
}

// Member is one object member.
type Member struct {
	K []rune
	V *Value
}

func Null() *Value                { return &Value{T: "null"} }
func Bool(b bool) *Value          { return &Value{T: "bool", B: b} }
func Num(lit string) *Value       { return &Value{T: "num", Lit: lit} }
func Str(s string) *Value         { return &Value{T: "str", Cp: []rune(s)} }
func StrCp(cp []rune) *Value      { return &Value{T: "str", Cp: cp} }
func Arr(e ...*Value) *Value      { return &Value{T: "arr", E: e} }
func Obj(m ...Member) *Value      { return &Value{T: "obj", M: m} }
func M(k string, v *Value) Member { return Member{K: []rune(k), V: v} }

// NumClass is a canonical spelling of the numeric value of a number literal
// (sign, significant digits without leading/trailing zeros, decimal exponent).
// It is used only to recognise "numerically equal but spelled differently".
func NumClass(lit string) string {
	s := lit
	neg := false
	if strings.HasPrefix(s, "-") {
		neg = true
		s = s[1:]
	}
	exp := new(big.Int)
	if i := strings.IndexAny(s, "eE"); i >= 0 {
		exp.SetString(strings.TrimPrefix(s[i+1:], "+"), 10)
		s = s[:i]
	}
	frac := ""
	if i := strings.IndexByte(s, '.'); i >= 0 {
		frac = s[i+1:]
		s = s[:i]
	}
	digits := s + frac
	exp.Sub(exp, big.NewInt(int64(len(frac))))
	digits = strings.TrimLeft(digits, "0")
	for strings.HasSuffix(digits, "0") {
		digits = digits[:len(digits)-1]
		exp.Add(exp, big.NewInt(1))
	}
	if digits == "" {
		return "0"
	}
	r := digits + "e" + exp.String()
	if neg {
		r = "-" + r
	}
	return r
}

// Clone makes a deep copy (without spans).
func (v *Value) Clone() *Value {
	if v == nil {
		return nil
	}
	c := &Value{T: v.T, B: v.B, Lit: v.Lit}
	if v.Cp != nil {
		c.Cp = append([]rune{}, v.Cp...)
	}
	for _, e := range v.E {
		c.E = append(c.E, e.Clone())
	}
	for _, m := range v.M {
		c.M = append(c.M, Member{K: append([]rune{}, m.K...), V: m.V.Clone()})
	}
	return c
}

// OrdKey is an injective text form of a value that keeps member order and literals:
// two values have the same OrdKey iff they are equal as ordered, literal-exact values.
func (v *Value) OrdKey() string {
	var b strings.Builder
	v.key(&b, false)
	return b.String()
}

// CanonKey is the same with the members of every object sorted by name: two values
// (without duplicate names) have the same CanonKey iff they are structurally equal.
func (v *Value) CanonKey() string {
	var b strings.Builder
	v.key(&b, true)
	return b.String()
}

func runesKey(b *strings.Builder, r []rune) {
	b.WriteByte('"')
	for _, c := range r {
		b.WriteString(strconv.FormatInt(int64(c), 16))
		b.WriteByte('.')
	}
	b.WriteByte('"')
}

func (v *Value) key(b *strings.Builder, sorted bool) {
	switch v.T {
	case "null":
		b.WriteString("N")
	case "bool":
		if v.B {
			b.WriteString("T")
		} else {
			b.WriteString("F")
		}
	case "num":
		b.WriteString("#" + v.Lit + "#")
	case "str":
		runesKey(b, v.Cp)
	case "arr":
		b.WriteByte('[')
		for _, e := range v.E {
			e.key(b, sorted)
			b.WriteByte(',')
		}
		b.WriteByte(']')
	case "obj":
		ms := v.M
		if sorted {
			ms = append([]Member{}, v.M...)
			sort.SliceStable(ms, func(i, j int) bool { return string(ms[i].K) < string(ms[j].K) })
		}
		b.WriteByte('{')
		for _, m := range ms {
			runesKey(b, m.K)
			b.WriteByte(':')
			m.V.key(b, sorted)
			b.WriteByte(',')
		}
		b.WriteByte('}')
	default:
		b.WriteString("?" + v.T)
	}
}

// HasDupKeys reports whether some object has two members with the same name.
func (v *Value) HasDupKeys() bool {
	switch v.T {
	case "arr":
		for _, e := range v.E {
			if e.HasDupKeys() {
				return true
			}
		}
	case "obj":
		seen := map[string]bool{}
		for _, m := range v.M {
			if seen[string(m.K)] {
				return true
			}
			seen[string(m.K)] = true
			if m.V.HasDupKeys() {
				return true
			}
		}
	}
	return false
}

// Nodes counts the nodes of a value.
func (v *Value) Nodes() int {
	n := 1
	for _, e := range v.E {
		n += e.Nodes()
	}
	for _, m := range v.M {
		n += m.V.Nodes()
	}
	return n
}

// ---------------------------------------------------------------------------
// Strict RFC 8259 reader.
// ---------------------------------------------------------------------------

// SyntaxError is returned by Parse for text outside the RFC 8259 grammar.
type SyntaxError struct {
	Off int
	Msg string
}

func (e *SyntaxError) Error() string { return fmt.Sprintf("offset %d: %s", e.Off, e.Msg) }

// MaxDepth is the nesting the library's codec documents (10000 levels).
const MaxDepth = 10000

type parser struct {
	s     []byte
	i     int
	depth int
}

func isWS(c byte) bool { return c == ' ' || c == '\t' || c == '\n' || c == '\r' }

func (p *parser) ws() {
	for p.i < len(p.s) && isWS(p.s[p.i]) {
		p.i++
	}
}

func (p *parser) fail(msg string) error { return &SyntaxError{Off: p.i, Msg: msg} }

// Parse reads exactly one JSON text (surrounding white space allowed).
func Parse(text []byte) (*Value, error) {
	p := &parser{s: text}
	p.ws()
	v, err := p.value()
	if err != nil {
		return nil, err
	}
	p.ws()
	if p.i != len(p.s) {
		return nil, p.fail("trailing data")
	}
	return v, nil
}

// Valid reports whether text is exactly one RFC 8259 JSON text nested at most MaxDepth deep.
func Valid(text []byte) bool {
	_, err := Parse(text)
	return err == nil
}

func (p *parser) value() (*Value, error) {
	if p.i >= len(p.s) {
		return nil, p.fail("unexpected end")
	}
	start := p.i
	c := p.s[p.i]
	switch {
	case c == '{':
		p.depth++
		if p.depth > MaxDepth {
			return nil, p.fail("too deep")
		}
		p.i++
		v := &Value{T: "obj", Start: start}
		p.ws()
		if p.i < len(p.s) && p.s[p.i] == '}' {
			p.i++
			p.depth--
			v.End = p.i
			return v, nil
		}
		for {
			p.ws()
			if p.i >= len(p.s) || p.s[p.i] != '"' {
				return nil, p.fail("member name expected")
			}
			k, err := p.str()
			if err != nil {
				return nil, err
			}
			p.ws()
			if p.i >= len(p.s) || p.s[p.i] != ':' {
				return nil, p.fail("colon expected")
			}
			p.i++
			p.ws()
			mv, err := p.value()
			if err != nil {
				return nil, err
			}
			v.M = append(v.M, Member{K: k, V: mv})
			p.ws()
			if p.i >= len(p.s) {
				return nil, p.fail("unexpected end in object")
			}
			if p.s[p.i] == ',' {
				p.i++
				continue
			}
			if p.s[p.i] == '}' {
				p.i++
				p.depth--
				v.End = p.i
				return v, nil
			}
			return nil, p.fail("',' or '}' expected")
		}
	case c == '[':
		p.depth++
		if p.depth > MaxDepth {
			return nil, p.fail("too deep")
		}
		p.i++
		v := &Value{T: "arr", Start: start}
		p.ws()
		if p.i < len(p.s) && p.s[p.i] == ']' {
			p.i++
			p.depth--
			v.End = p.i
			return v, nil
		}
		for {
			p.ws()
			ev, err := p.value()
			if err != nil {
				return nil, err
			}
			v.E = append(v.E, ev)
			p.ws()
			if p.i >= len(p.s) {
				return nil, p.fail("unexpected end in array")
			}
			if p.s[p.i] == ',' {
				p.i++
				continue
			}
			if p.s[p.i] == ']' {
				p.i++
				p.depth--
				v.End = p.i
				return v, nil
			}
			return nil, p.fail("',' or ']' expected")
		}
	case c == '"':
		cp, err := p.str()
		if err != nil {
			return nil, err
		}
		return &Value{T: "str", Cp: cp, Start: start, End: p.i}, nil
	case c == 't':
		if bytes.HasPrefix(p.s[p.i:], []byte("true")) {
			p.i += 4
			return &Value{T: "bool", B: true, Start: start, End: p.i}, nil
		}
		return nil, p.fail("bad literal")
	case c == 'f':
		if bytes.HasPrefix(p.s[p.i:], []byte("false")) {
			p.i += 5
			return &Value{T: "bool", B: false, Start: start, End: p.i}, nil
		}
		return nil, p.fail("bad literal")
	case c == 'n':
		if bytes.HasPrefix(p.s[p.i:], []byte("null")) {
			p.i += 4
			return &Value{T: "null", Start: start, End: p.i}, nil
		}
		return nil, p.fail("bad literal")
	case c == '-' || (c >= '0' && c <= '9'):
		if err := p.number(); err != nil {
			return nil, err
		}
		return &Value{T: "num", Lit: string(p.s[start:p.i]), Start: start, End: p.i}, nil
	}
	return nil, p.fail("value expected")
}

func isDigit(c byte) bool { return c >= '0' && c <= '9' }

func (p *parser) number() error {
	if p.s[p.i] == '-' {
		p.i++
	}
	if p.i >= len(p.s) {
		return p.fail("digit expected")
	}
	if p.s[p.i] == '0' {
		p.i++
	} else if p.s[p.i] >= '1' && p.s[p.i] <= '9' {
		for p.i < len(p.s) && isDigit(p.s[p.i]) {
			p.i++
		}
	} else {
		return p.fail("digit expected")
	}
	if p.i < len(p.s) && p.s[p.i] == '.' {
		p.i++
		if p.i >= len(p.s) || !isDigit(p.s[p.i]) {
			return p.fail("digit expected after '.'")
		}
		for p.i < len(p.s) && isDigit(p.s[p.i]) {
			p.i++
		}
	}
	if p.i < len(p.s) && (p.s[p.i] == 'e' || p.s[p.i] == 'E') {
		p.i++
		if p.i < len(p.s) && (p.s[p.i] == '+' || p.s[p.i] == '-') {
			p.i++
		}
		if p.i >= len(p.s) || !isDigit(p.s[p.i]) {
			return p.fail("digit expected in exponent")
		}
		for p.i < len(p.s) && isDigit(p.s[p.i]) {
			p.i++
		}
	}
	return nil
}

func hexVal(c byte) int {
	switch {
	case c >= '0' && c <= '9':
		return int(c - '0')
	case c >= 'a' && c <= 'f':
		return int(c-'a') + 10
	case c >= 'A' && c <= 'F':
		return int(c-'A') + 10
	}
	return -1
}

func (p *parser) hex4() (rune, error) {
	if p.i+4 > len(p.s) {
		return 0, p.fail("short \\u escape")
	}
	var r rune
	for k := 0; k < 4; k++ {
		h := hexVal(p.s[p.i+k])
		if h < 0 {
			return 0, p.fail("bad hex digit")
		}
		r = r*16 + rune(h)
	}
	p.i += 4
	return r, nil
}

// str reads a string token and decodes it to code points.  Escaped surrogate pairs are
// combined; a lone surrogate escape, and an invalid UTF-8 byte, decode to U+FFFD.
func (p *parser) str() ([]rune, error) {
	p.i++ // opening quote
	out := []rune{}
	for {
		if p.i >= len(p.s) {
			return nil, p.fail("unterminated string")
		}
		c := p.s[p.i]
		switch {
		case c == '"':
			p.i++
			return out, nil
		case c < 0x20:
			return nil, p.fail("control character in string")
		case c == '\\':
			p.i++
			if p.i >= len(p.s) {
				return nil, p.fail("unterminated escape")
			}
			e := p.s[p.i]
			p.i++
			switch e {
			case '"':
				out = append(out, '"')
			case '\\':
				out = append(out, '\\')
			case '/':
				out = append(out, '/')
			case 'b':
				out = append(out, 8)
			case 'f':
				out = append(out, 12)
			case 'n':
				out = append(out, 10)
			case 'r':
				out = append(out, 13)
			case 't':
				out = append(out, 9)
			case 'u':
				r, err := p.hex4()
				if err != nil {
					return nil, err
				}
				if r >= 0xD800 && r < 0xDC00 {
					// high surrogate: needs an escaped low surrogate right after it
					if p.i+6 <= len(p.s) && p.s[p.i] == '\\' && p.s[p.i+1] == 'u' {
						save := p.i
						p.i += 2
						r2, err := p.hex4()
						if err != nil {
							return nil, err
						}
						if r2 >= 0xDC00 && r2 < 0xE000 {
							out = append(out, 0x10000+(r-0xD800)<<10+(r2-0xDC00))
							continue
						}
						p.i = save
					}
					out = append(out, 0xFFFD)
				} else if r >= 0xDC00 && r < 0xE000 {
					out = append(out, 0xFFFD)
				} else {
					out = append(out, r)
				}
			default:
				p.i--
				return nil, p.fail("bad escape")
			}
		case c < 0x80:
			out = append(out, rune(c))
			p.i++
		default:
			r, n := utf8.DecodeRune(p.s[p.i:])
			if r == utf8.RuneError && n == 1 {
				out = append(out, 0xFFFD)
				p.i++
			} else {
				out = append(out, r)
				p.i += n
			}
		}
	}
}
