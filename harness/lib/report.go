// Package lib holds what the replayers and recorders share: calling the real
// library under recover() and a watchdog, classifying errors, reporting
// violations (replay files, VIOLATION / KNOWN-FINDING lines), known findings,
// and the counters that end up in the evidence file.
package lib

import (
	"crypto/sha1"
	"encoding/hex"
	"encoding/json"
	"fmt"
	"os"
	"path/filepath"
	"regexp"
	"sort"
	"sync"
)

// Finding is one entry of /verif/known_findings.json.
type Finding struct {
	ID       string `json:"id"`
	Status   string `json:"status"` // "open" (suppresses, prints KNOWN-FINDING) or "fixed" (suppresses nothing)
	Property string `json:"property"`
	What     string `json:"what"`
	// Match: every key must match the violation's Sig entry of the same name (regular expression,
	// anchored).  Sig entries are computed by the replayer from the failing case only.
	Match map[string]string `json:"match"`
	Line  string            `json:"line,omitempty"` // for fixed entries: the "fixed: ..." record
	res   map[string]*regexp.Regexp
}

// Violation is one observation of the real code that the spec does not allow.
type Violation struct {
	Property string                 `json:"property"`
	Kind     string                 `json:"kind"`   // short machine-readable reason
	Detail   string                 `json:"detail"` // human-readable
	Sig      map[string]string      `json:"sig"`    // what known-finding matchers look at
	Case     map[string]interface{} `json:"case"`   // everything needed to replay
}

// Reporter collects violations and statistics; safe for concurrent use.
type Reporter struct {
	mu       sync.Mutex
	Dir      string // where replay files go
	findings []*Finding
	MaxFiles int
	files    int
	NViol    int
	NKnown   map[string]int
	Samples  []interface{}
	Counters map[string]int64
	Distinct map[string]struct{}
	Labels   map[string]int64
	printed  map[string]bool
	// OnlyKinds, when set, restricts what counts as a violation (C04: only panics and hangs are its
	// business; what a call returns is judged by the other properties)
	OnlyKinds map[string]bool
}

// NewReporter loads the known findings.
func NewReporter(dir, findingsFile string) (*Reporter, error) {
	r := &Reporter{Dir: dir, MaxFiles: 25, NKnown: map[string]int{}, Counters: map[string]int64{},
		Distinct: map[string]struct{}{}, Labels: map[string]int64{}, printed: map[string]bool{}}
	if findingsFile != "" {
		b, err := os.ReadFile(findingsFile)
		if err != nil {
			return nil, err
		}
		var doc struct {
			Findings []*Finding `json:"findings"`
		}
		if err := json.Unmarshal(b, &doc); err != nil {
			return nil, fmt.Errorf("%s: %v", findingsFile, err)
		}
		for _, f := range doc.Findings {
			if f.Status != "open" {
				continue
			}
			f.res = map[string]*regexp.Regexp{}
			for k, v := range f.Match {
				re, err := regexp.Compile("^(?:" + v + ")$")
				if err != nil {
					return nil, fmt.Errorf("finding %s: %v", f.ID, err)
				}
				f.res[k] = re
			}
			r.findings = append(r.findings, f)
		}
	}
	return r, nil
}

func (f *Finding) matches(v *Violation) bool {
	if f.Property != v.Property {
		return false
	}
	for k, re := range f.res {
		s, ok := v.Sig[k]
		if !ok || !re.MatchString(s) {
			return false
		}
	}
	return true
}

// Count adds n to a named counter.
func (r *Reporter) Count(name string, n int64) {
	r.mu.Lock()
	r.Counters[name] += n
	r.mu.Unlock()
}

// Label counts a spec action label.
func (r *Reporter) Label(name string) {
	r.mu.Lock()
	r.Labels[name]++
	r.mu.Unlock()
}

// Nontrivial records a distinct non-trivial case by its key.
func (r *Reporter) Nontrivial(key string) {
	h := sha1.Sum([]byte(key))
	r.mu.Lock()
	r.Distinct[string(h[:8])] = struct{}{}
	r.mu.Unlock()
}

// Sample keeps up to 5 sample cases for the evidence.
func (r *Reporter) Sample(s interface{}) {
	r.mu.Lock()
	if len(r.Samples) < 5 {
		r.Samples = append(r.Samples, s)
	}
	r.mu.Unlock()
}

// Report files a violation: a known finding is counted and announced once, anything else
// gets a replay file and a VIOLATION line.
func (r *Reporter) Report(v *Violation) {
	r.mu.Lock()
	defer r.mu.Unlock()
	if r.OnlyKinds != nil && !r.OnlyKinds[v.Kind] {
		r.Counters["ignored:"+v.Kind]++
		return
	}
	for _, f := range r.findings {
		if f.matches(v) {
			r.NKnown[f.ID]++
			if !r.printed[f.ID] {
				r.printed[f.ID] = true
				fmt.Printf("KNOWN-FINDING: property=%s %s: %s\n", f.Property, f.ID, f.What)
			}
			return
		}
	}
	r.NViol++
	if v.Case != nil {
		v.Case["package"] = Dialect
	}
	r.Counters["viol:"+v.Kind+":"+v.Sig["lab"]+":"+v.Sig["lastop"]]++
	if r.files >= r.MaxFiles {
		return
	}
	r.files++
	b, _ := json.MarshalIndent(v, "", " ")
	h := sha1.Sum(b)
	name := fmt.Sprintf("%s-%s.json", v.Property, hex.EncodeToString(h[:6]))
	path := filepath.Join(r.Dir, name)
	os.MkdirAll(r.Dir, 0o755)
	if err := os.WriteFile(path, b, 0o644); err != nil {
		fmt.Fprintf(os.Stderr, "cannot write replay file: %v\n", err)
	}
	fmt.Printf("VIOLATION property=%s replay=%s\n", v.Property, path)
	fmt.Printf("  kind=%s %s\n", v.Kind, v.Detail)
}

// Summary is what a replayer prints (as one JSON line prefixed "SUMMARY ") when it is done.
type Summary struct {
	Violations int              `json:"violations"`
	Known      map[string]int   `json:"known"`
	Counters   map[string]int64 `json:"counters"`
	Labels     map[string]int64 `json:"labels"`
	Distinct   int              `json:"distinct_nontrivial"`
	Samples    []interface{}    `json:"samples"`
}

// PrintSummary writes the summary line.
func (r *Reporter) PrintSummary() {
	r.mu.Lock()
	defer r.mu.Unlock()
	s := Summary{Violations: r.NViol, Known: r.NKnown, Counters: r.Counters, Labels: r.Labels,
		Distinct: len(r.Distinct), Samples: r.Samples}
	b, _ := json.Marshal(s)
	fmt.Printf("SUMMARY %s\n", b)
	keys := make([]string, 0, len(r.NKnown))
	for k := range r.NKnown {
		keys = append(keys, k)
	}
	sort.Strings(keys)
}
