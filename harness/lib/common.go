package lib

import (
	"fmt"
	"os"
	"runtime/debug"
	"sync"
	"sync/atomic"
	"time"
)

// Opts mirrors the spec's option record [neg, limit, allow, ensure, esc].
type Opts struct {
	Neg    bool `json:"neg"`
	Limit  int  `json:"limit"`
	Allow  bool `json:"allow"`
	Ensure bool `json:"ensure"`
	Esc    bool `json:"esc"`
}

// ErrClass is the projection of a Go error (never its message).
type ErrClass struct {
	Test    bool `json:"test"`    // errors.Is(err, ErrTestFailed)
	Copy    bool `json:"copy"`    // errors.As(err, *AccumulatedCopySizeError)
	Missing bool `json:"missing"` // errors.Is(err, ErrMissing)
}

// Result of one guarded call.
type Result struct {
	Out   []byte
	Err   error
	Panic string // non-empty: the call panicked (value and stack)
	Bool  bool   // Equal's verdict
}

// ---------------------------------------------------------------------------
// Watchdog: a call that does not return cannot be interrupted in Go, so a hang is
// reported by a monitor goroutine, which files the violation and ends the process.
// ---------------------------------------------------------------------------

type slot struct {
	start atomic.Int64 // unix nanos, 0 = idle
	mu    sync.Mutex
	what  func() *Violation
}

// Watchdog monitors guarded calls.
type Watchdog struct {
	slots   []*slot
	Limit   time.Duration
	rep     *Reporter
	Slow    atomic.Int64
	SlowMax atomic.Int64
}

// NewWatchdog starts a monitor for n workers.
func NewWatchdog(n int, limit time.Duration, rep *Reporter) *Watchdog {
	w := &Watchdog{Limit: limit, rep: rep}
	for i := 0; i < n; i++ {
		w.slots = append(w.slots, &slot{})
	}
	go func() {
		for {
			time.Sleep(200 * time.Millisecond)
			now := time.Now().UnixNano()
			for _, s := range w.slots {
				st := s.start.Load()
				if st != 0 && time.Duration(now-st) > w.Limit {
					s.mu.Lock()
					f := s.what
					s.mu.Unlock()
					if f != nil {
						v := f()
						v.Kind = "hang"
						v.Detail = fmt.Sprintf("call did not return within %v", w.Limit)
						rep.Report(v)
					}
					rep.PrintSummary()
					os.Stdout.Sync()
					os.Exit(3)
				}
			}
		}
	}()
	return w
}

// Guard runs f for worker i under recover() and the watchdog.  what describes the case if it hangs.
func (w *Watchdog) Guard(i int, what func() *Violation, f func()) (panicked string) {
	s := w.slots[i]
	s.mu.Lock()
	s.what = what
	s.mu.Unlock()
	s.start.Store(time.Now().UnixNano())
	defer func() {
		s.start.Store(0)
		if r := recover(); r != nil {
			panicked = fmt.Sprintf("%v\n%s", r, debug.Stack())
		}
	}()
	f()
	return ""
}
