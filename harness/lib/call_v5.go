//go:build !v4

package lib

import (
	"errors"
	"sync"

	jsonpatch "github.com/evanphx/json-patch/v5"
)

// Dialect names the package under test.
const Dialect = "v5"

// Patch is the decoded patch type of the package under test.
type Patch = jsonpatch.Patch

// NativeOpts is the library's own options value (shared between calls where a check wants that).
type NativeOpts = *jsonpatch.ApplyOptions

// ApplyNative applies with a given (possibly shared) options value.
func ApplyNative(doc, patch []byte, n NativeOpts) (out []byte, err error, decodeErr error) {
	p, derr := jsonpatch.DecodePatch(patch)
	if derr != nil {
		return nil, nil, derr
	}
	out, err = p.ApplyWithOptions(doc, n)
	return out, err, nil
}

// Native converts to the library's options.
func (o Opts) Native() *jsonpatch.ApplyOptions {
	return &jsonpatch.ApplyOptions{
		SupportNegativeIndices:   o.Neg,
		AccumulatedCopySizeLimit: int64(o.Limit),
		AllowMissingPathOnRemove: o.Allow,
		EnsurePathExistsOnAdd:    o.Ensure,
		EscapeHTML:               o.Esc,
	}
}

// Classify projects an error.
func Classify(err error) ErrClass {
	var c ErrClass
	if err == nil {
		return c
	}
	c.Test = errors.Is(err, jsonpatch.ErrTestFailed)
	var ce *jsonpatch.AccumulatedCopySizeError
	c.Copy = errors.As(err, &ce)
	c.Missing = errors.Is(err, jsonpatch.ErrMissing)
	return c
}

// DecodePatch calls jsonpatch.DecodePatch.
func DecodePatch(patch []byte) (jsonpatch.Patch, error) { return jsonpatch.DecodePatch(patch) }

// Apply decodes the patch and applies it with options (indent "" = ApplyWithOptions).
// decodeErr is set when DecodePatch rejected the patch.
func Apply(doc, patch []byte, o Opts, indent string) (out []byte, err error, decodeErr error) {
	p, derr := jsonpatch.DecodePatch(patch)
	if derr != nil {
		return nil, nil, derr
	}
	if indent == "" {
		out, err = p.ApplyWithOptions(doc, o.Native())
	} else {
		out, err = p.ApplyIndentWithOptions(doc, indent, o.Native())
	}
	return out, err, nil
}

// Supported tells whether the package under test offers these options.
func Supported(o Opts) bool { return true }

// the package-level defaults are process-wide: runs that set them exclude each other
var defaultsMu sync.Mutex

// ApplyDefaults applies through Patch.Apply with the package-level defaults set to (limit, neg).
func ApplyDefaults(doc, patch []byte, limit int, neg bool) (out []byte, err error, decodeErr error) {
	defaultsMu.Lock()
	defer defaultsMu.Unlock()
	oldL, oldN := jsonpatch.AccumulatedCopySizeLimit, jsonpatch.SupportNegativeIndices
	jsonpatch.AccumulatedCopySizeLimit, jsonpatch.SupportNegativeIndices = int64(limit), neg
	defer func() { jsonpatch.AccumulatedCopySizeLimit, jsonpatch.SupportNegativeIndices = oldL, oldN }()
	p, derr := jsonpatch.DecodePatch(patch)
	if derr != nil {
		return nil, nil, derr
	}
	out, err = p.Apply(doc)
	return out, err, nil
}

// MergePatch, MergeMergePatches, CreateMergePatch, Equal: the merge-patch entry points.
func MergePatch(doc, patch []byte) ([]byte, error)    { return jsonpatch.MergePatch(doc, patch) }
func MergeMergePatches(p1, p2 []byte) ([]byte, error) { return jsonpatch.MergeMergePatches(p1, p2) }
func CreateMergePatch(a, b []byte) ([]byte, error)    { return jsonpatch.CreateMergePatch(a, b) }
func Equal(a, b []byte) bool                          { return jsonpatch.Equal(a, b) }

// ApplyDecoded applies an already decoded patch.
func ApplyDecoded(p Patch, doc []byte, o Opts, indent string) ([]byte, error) {
	if indent == "" {
		return p.ApplyWithOptions(doc, o.Native())
	}
	return p.ApplyIndentWithOptions(doc, indent, o.Native())
}
