package lib

import (
	"errors"
	"fmt"
	"os"
	"runtime/debug"
	"sync"
	"sync/atomic"
	"time"

	jsonpatch "github.com/evanphx/json-patch/v5"
)

// Opts mirrors the spec's option record [neg, limit, allow, ensure, esc].
type Opts struct {
	Neg    bool `json:"neg"`
	Limit  int  `json:"limit"`
	Allow  bool `json:"allow"`
	Ensure bool `json:"ensure"`
	Esc    bool `json:"esc"`
}

// Native converts to the library's options.
func (o Opts) Native() *jsonpatch.ApplyOptions {
	return &jsonpatch.ApplyOptions{
		SupportNegativeIndices:   o.Neg,
		AccumulatedCopySizeLimit: int64(o.Limit),
		AllowMissingPathOnRemove: o.Allow,
		EnsurePathExistsOnAdd:    o.Ensure,
		EscapeHTML:               o.Esc,
	}
}

// ErrClass is the projection of a Go error (never its message).
type ErrClass struct {
	Test    bool `json:"test"`    // errors.Is(err, ErrTestFailed)
	Copy    bool `json:"copy"`    // errors.As(err, *AccumulatedCopySizeError)
	Missing bool `json:"missing"` // errors.Is(err, ErrMissing)
}

// Classify projects an error.
func Classify(err error) ErrClass {
	var c ErrClass
	if err == nil {
		return c
	}
	c.Test = errors.Is(err, jsonpatch.ErrTestFailed)
	var ce *jsonpatch.AccumulatedCopySizeError
	c.Copy = errors.As(err, &ce)
	c.Missing = errors.Is(err, jsonpatch.ErrMissing)
	return c
}

// Result of one guarded call.
type Result struct {
	Out   []byte
	Err   error
	Panic string // non-empty: the call panicked (value and stack)
	Bool  bool   // Equal's verdict
}

// ---------------------------------------------------------------------------
// Watchdog: a call that does not return cannot be interrupted in Go, so a hang is
// reported by a monitor goroutine, which files the violation and ends the process.
// ---------------------------------------------------------------------------

type slot struct {
	start atomic.Int64 // unix nanos, 0 = idle
	mu    sync.Mutex
	what  func() *Violation
}

// Watchdog monitors guarded calls.
type Watchdog struct {
	slots   []*slot
	Limit   time.Duration
	rep     *Reporter
	Slow    atomic.Int64
	SlowMax atomic.Int64
}

// NewWatchdog starts a monitor for n workers.
func NewWatchdog(n int, limit time.Duration, rep *Reporter) *Watchdog {
	w := &Watchdog{Limit: limit, rep: rep}
	for i := 0; i < n; i++ {
		w.slots = append(w.slots, &slot{})
	}
	go func() {
		for {
			time.Sleep(200 * time.Millisecond)
			now := time.Now().UnixNano()
			for _, s := range w.slots {
				st := s.start.Load()
				if st != 0 && time.Duration(now-st) > w.Limit {
					s.mu.Lock()
					f := s.what
					s.mu.Unlock()
					if f != nil {
						v := f()
						v.Kind = "hang"
						v.Detail = fmt.Sprintf("call did not return within %v", w.Limit)
						rep.Report(v)
					}
					rep.PrintSummary()
					os.Stdout.Sync()
					os.Exit(3)
				}
			}
		}
	}()
	return w
}

// Guard runs f for worker i under recover() and the watchdog.  what describes the case if it hangs.
func (w *Watchdog) Guard(i int, what func() *Violation, f func()) (panicked string) {
	s := w.slots[i]
	s.mu.Lock()
	s.what = what
	s.mu.Unlock()
	s.start.Store(time.Now().UnixNano())
	defer func() {
		s.start.Store(0)
		if r := recover(); r != nil {
			panicked = fmt.Sprintf("%v\n%s", r, debug.Stack())
		}
	}()
	f()
	return ""
}

// ---------------------------------------------------------------------------
// The v5 entry points.
// ---------------------------------------------------------------------------

// DecodePatch calls jsonpatch.DecodePatch.
func DecodePatch(patch []byte) (jsonpatch.Patch, error) { return jsonpatch.DecodePatch(patch) }

// Apply decodes the patch and applies it with options (indent "" = ApplyWithOptions).
// decodeErr is set when DecodePatch rejected the patch.
func Apply(doc, patch []byte, o Opts, indent string) (out []byte, err error, decodeErr error) {
	p, derr := jsonpatch.DecodePatch(patch)
	if derr != nil {
		return nil, nil, derr
	}
	if indent == "" {
		out, err = p.ApplyWithOptions(doc, o.Native())
	} else {
		out, err = p.ApplyIndentWithOptions(doc, indent, o.Native())
	}
	return out, err, nil
}

// MergePatch, MergeMergePatches, CreateMergePatch, Equal: the merge-patch entry points.
func MergePatch(doc, patch []byte) ([]byte, error)        { return jsonpatch.MergePatch(doc, patch) }
func MergeMergePatches(p1, p2 []byte) ([]byte, error)     { return jsonpatch.MergeMergePatches(p1, p2) }
func CreateMergePatch(a, b []byte) ([]byte, error)        { return jsonpatch.CreateMergePatch(a, b) }
func Equal(a, b []byte) bool                              { return jsonpatch.Equal(a, b) }
