//go:build v4

package lib

import (
	"errors"
	"sync"

	jsonpatch "github.com/evanphx/json-patch"
)

// Dialect names the package under test: the legacy root package (v4 API), staged as a module
// from /repo's patch.go merge.go errors.go.
const Dialect = "v4"

// Patch is the decoded patch type of the package under test.
type Patch = jsonpatch.Patch

// NativeOpts: the legacy package has no options value; the harness's own record stands in for it.
type NativeOpts = *Opts

// Native returns a fresh copy.
func (o Opts) Native() NativeOpts { c := o; return &c }

// ApplyNative applies under the package settings of n.
func ApplyNative(doc, patch []byte, n NativeOpts) (out []byte, err error, decodeErr error) {
	return Apply(doc, patch, *n, "")
}

// Classify projects an error.
func Classify(err error) ErrClass {
	var c ErrClass
	if err == nil {
		return c
	}
	c.Test = errors.Is(err, jsonpatch.ErrTestFailed)
	var ce *jsonpatch.AccumulatedCopySizeError
	c.Copy = errors.As(err, &ce)
	c.Missing = errors.Is(err, jsonpatch.ErrMissing)
	return c
}

// DecodePatch calls jsonpatch.DecodePatch.
func DecodePatch(patch []byte) (jsonpatch.Patch, error) { return jsonpatch.DecodePatch(patch) }

// Supported: the legacy package has only the two package-level settings; its encoder always escapes HTML.
func Supported(o Opts) bool { return !o.Allow && !o.Ensure && o.Esc }

// The settings are package variables: calls with the default (negative indices on, no limit) share
// a read lock, any other setting takes the lock exclusively while it changes the variables.
var defaultsMu sync.RWMutex

func withSettings(limit int, neg bool, f func()) {
	if limit == 0 && neg {
		defaultsMu.RLock()
		defer defaultsMu.RUnlock()
		f()
		return
	}
	defaultsMu.Lock()
	defer defaultsMu.Unlock()
	oldL, oldN := jsonpatch.AccumulatedCopySizeLimit, jsonpatch.SupportNegativeIndices
	jsonpatch.AccumulatedCopySizeLimit, jsonpatch.SupportNegativeIndices = int64(limit), neg
	defer func() { jsonpatch.AccumulatedCopySizeLimit, jsonpatch.SupportNegativeIndices = oldL, oldN }()
	f()
}

// Apply decodes the patch and applies it under the package settings (limit, neg) of o.
func Apply(doc, patch []byte, o Opts, indent string) (out []byte, err error, decodeErr error) {
	withSettings(o.Limit, o.Neg, func() {
		p, derr := jsonpatch.DecodePatch(patch)
		if derr != nil {
			decodeErr = derr
			return
		}
		if indent == "" {
			out, err = p.Apply(doc)
		} else {
			out, err = p.ApplyIndent(doc, indent)
		}
	})
	return
}

// ApplyDefaults is Apply: the legacy package has nothing but defaults.
func ApplyDefaults(doc, patch []byte, limit int, neg bool) (out []byte, err error, decodeErr error) {
	return Apply(doc, patch, Opts{Limit: limit, Neg: neg, Esc: true}, "")
}

func shared(f func()) { defaultsMu.RLock(); defer defaultsMu.RUnlock(); f() }

// MergePatch, MergeMergePatches, CreateMergePatch, Equal: the merge-patch entry points.
func MergePatch(doc, patch []byte) (out []byte, err error) {
	shared(func() { out, err = jsonpatch.MergePatch(doc, patch) })
	return
}
func MergeMergePatches(p1, p2 []byte) (out []byte, err error) {
	shared(func() { out, err = jsonpatch.MergeMergePatches(p1, p2) })
	return
}
func CreateMergePatch(a, b []byte) (out []byte, err error) {
	shared(func() { out, err = jsonpatch.CreateMergePatch(a, b) })
	return
}
func Equal(a, b []byte) (r bool) { shared(func() { r = jsonpatch.Equal(a, b) }); return }

// ApplyDecoded applies an already decoded patch under the package settings of o.
func ApplyDecoded(p Patch, doc []byte, o Opts, indent string) (out []byte, err error) {
	withSettings(o.Limit, o.Neg, func() {
		if indent == "" {
			out, err = p.Apply(doc)
		} else {
			out, err = p.ApplyIndent(doc, indent)
		}
	})
	return
}
